(* Lock.v -- the lock-file protocol of pogreb (fs/os_unix.go createLockFile,
   fs/os.go osLockFile.Unlock) at system-call granularity, for an unbounded
   number of processes, all interleavings, and process death at any point.

   Part 1: executable model of the CURRENT (repaired) protocol
             create(O_EXCL) | open ; flock(LOCK_EX|LOCK_NB) ;
             verify (fstat + stat(path), reads the size) ; mark (write one byte)
             release = unlink ; close
   Part 2: inductive invariant
   Part 3: the C13_* theorems
   Part 4: module NoMark -- the intermediate repair (verify but no mark) and the
           race that makes the mark necessary
   Part 5: module Pinned -- the old protocol (stat ; open(O_CREATE) ; flock) and
           its refutation witnesses
   Part 6: non-vacuity examples, Print Assumptions.

   Standard library only; no axioms. *)

From Coq Require Import Arith List Lia Bool.
Import ListNotations.

(* ------------------------------------------------------------------ *)
(** * Finite-update maps *)

Definition upd {A} (f : nat -> A) (k : nat) (v : A) : nat -> A :=
  fun x => if Nat.eqb x k then v else f x.

Lemma upd_same {A} (f : nat -> A) k v : upd f k v k = v.
Proof. unfold upd. now rewrite Nat.eqb_refl. Qed.
Lemma upd_other {A} (f : nat -> A) k v x : x <> k -> upd f k v x = f x.
Proof. unfold upd. intros H. destruct (Nat.eqb_spec x k); congruence. Qed.
Lemma upd_eq {A} (f : nat -> A) k v x : x = k -> upd f k v x = v.
Proof. intros ->. apply upd_same. Qed.
Lemma upd_neq {A} (f : nat -> A) k v x : x <> k -> upd f k v x = f x.
Proof. apply upd_other. Qed.

(* ------------------------------------------------------------------ *)
(** * Vocabulary shared by all three protocols *)

(* A schedule is a list of events.  [Step p] lets process p perform its next
   system call; [Acquire p] makes an idle process enter createLockFile;
   [Release p] makes a holder enter Unlock; [Die p] kills p (the kernel closes
   its descriptor, which drops its flock; the path is not removed).  Events
   that are not enabled (Acquire of a busy process, Release of a non-holder,
   Step of an idle process or of a holder) are no-ops. *)
Inductive event := Step (p : nat) | Acquire (p : nat) | Release (p : nat) | Die (p : nat).

Definition actor (e : event) : nat :=
  match e with Step p | Acquire p | Release p | Die p => p end.

Definition is_die (e : event) : bool := match e with Die _ => true | _ => false end.

(* Observable result of the last finished acquisition attempt of a process. *)
Inductive outcome := NoResult | Succeeded (existing : bool) | FailedLocked.

(* ------------------------------------------------------------------ *)
(** * Part 1: the current protocol -- executable model *)

(* Program counter = the next system call the process will perform. *)
Inductive pc :=
| Idle        (* not in createLockFile/Unlock (also: dead)                          *)
| TryCreate   (* next: open(O_RDWR|O_CREATE|O_EXCL)   -- top of the for loop "lock.create" *)
| WantOpen    (* got EEXIST; next: open(O_RDWR)                          "lock.open"   *)
| HaveFd      (* has a descriptor; next: flock(LOCK_EX|LOCK_NB)          "lock.flock"  *)
| Locked      (* holds the flock; next: fstat + stat(path) verify        "lock.verify" *)
| Verified    (* verify passed; next: WriteAt([1],0)                     "lock.mark"   *)
| Holder      (* createLockFile returned success; Unlock not yet entered              *)
| Releasing   (* in Unlock; next: unlink(path)                           "unlock.remove" *)
| Unlinked.   (* in Unlock; next: close(fd)                              "unlock.close"  *)

Record proc := {
  ppc       : pc;
  pfd       : nat;      (* inode of the open descriptor (meaningful when hasfdb ppc) *)
  pexisting : bool;     (* local variable acquiredExisting                            *)
  pres      : outcome;  (* result of the last finished attempt (observable)           *)
  pborn     : nat       (* GHOST: value of [next] when the current attempt started    *)
}.

Definition mkp c fd ex r b : proc :=
  {| ppc := c; pfd := fd; pexisting := ex; pres := r; pborn := b |}.

Record kst := {
  path       : option nat;        (* inode the lock path names, if any               *)
  next       : nat;               (* fresh inode counter                             *)
  lockedby   : nat -> option nat; (* per inode: the process whose descriptor holds the flock *)
  marked     : nat -> bool;       (* per inode: file size <> 0 (the mark byte was written)   *)
  procs      : nat -> proc;
  created_by : nat -> nat;        (* GHOST: per inode, the process whose O_EXCL create made it *)
  owners     : nat -> nat         (* GHOST: per inode, number of acquisitions completed on it *)
}.

Definition init : kst :=
  {| path := None; next := 0; lockedby := fun _ => None; marked := fun _ => false;
     procs := fun _ => mkp Idle 0 false NoResult 0;
     created_by := fun _ => 0; owners := fun _ => 0 |}.

Definition setp (s : kst) (p : nat) (q : proc) : kst :=
  {| path := path s; next := next s; lockedby := lockedby s; marked := marked s;
     procs := upd (procs s) p q; created_by := created_by s; owners := owners s |}.

(* process holds the flock on pfd *)
Definition holdsb (c : pc) : bool :=
  match c with Locked | Verified | Holder | Releasing | Unlinked => true | _ => false end.
(* process has an open descriptor on pfd *)
Definition hasfdb (c : pc) : bool :=
  match c with HaveFd | Locked | Verified | Holder | Releasing | Unlinked => true | _ => false end.
(* process has verified that the path names pfd, and has not unlinked it *)
Definition ownsb (c : pc) : bool :=
  match c with Verified | Holder | Releasing => true | _ => false end.
(* process is "in session": acquire returned success, path not yet unlinked *)
Definition sessb (c : pc) : bool :=
  match c with Holder | Releasing => true | _ => false end.
Definition verifb (c : pc) : bool :=
  match c with Verified => true | _ => false end.
(* acquire returned success and the process has not finished Unlock *)
Definition postb (c : pc) : bool :=
  match c with Holder | Releasing | Unlinked => true | _ => false end.

Definition path_is (s : kst) (i : nat) : bool :=
  match path s with Some j => Nat.eqb j i | None => false end.

(* The next system call of process p.  Deterministic. *)
Definition run_proc (s : kst) (p : nat) : kst :=
  let q := procs s p in
  match ppc q with
  | Idle => s
  | Holder => s
  | TryCreate =>
      match path s with
      | None =>      (* O_EXCL create succeeds: fresh, empty inode; path now names it *)
          {| path := Some (next s); next := S (next s); lockedby := lockedby s;
             marked := marked s;
             procs := upd (procs s) p (mkp HaveFd (next s) false NoResult (pborn q));
             created_by := upd (created_by s) (next s) p; owners := owners s |}
      | Some _ =>    (* EEXIST *)
          setp s p (mkp WantOpen 0 true NoResult (pborn q))
      end
  | WantOpen =>
      match path s with
      | Some i => setp s p (mkp HaveFd i true NoResult (pborn q))
      | None   => setp s p (mkp TryCreate 0 false NoResult (pborn q))   (* ENOENT: continue *)
      end
  | HaveFd =>
      match lockedby s (pfd q) with
      | None =>      (* flock succeeds *)
          {| path := path s; next := next s;
             lockedby := upd (lockedby s) (pfd q) (Some p); marked := marked s;
             procs := upd (procs s) p (mkp Locked (pfd q) (pexisting q) NoResult (pborn q));
             created_by := created_by s; owners := owners s |}
      | Some _ =>    (* EWOULDBLOCK: close, return ErrExist ("locked") *)
          setp s p (mkp Idle 0 false FailedLocked (pborn q))
      end
  | Locked =>
      if path_is s (pfd q)
      then           (* SameFile; acquiredExisting |= (size <> 0) *)
          setp s p (mkp Verified (pfd q) (pexisting q || marked s (pfd q)) NoResult (pborn q))
      else           (* path gone or names another inode: close, continue *)
          {| path := path s; next := next s;
             lockedby := upd (lockedby s) (pfd q) None; marked := marked s;
             procs := upd (procs s) p (mkp TryCreate 0 false NoResult (pborn q));
             created_by := created_by s; owners := owners s |}
  | Verified =>      (* WriteAt([1],0), then return success *)
      {| path := path s; next := next s; lockedby := lockedby s;
         marked := upd (marked s) (pfd q) true;
         procs := upd (procs s) p
                    (mkp Holder (pfd q) (pexisting q) (Succeeded (pexisting q)) (pborn q));
         created_by := created_by s;
         owners := upd (owners s) (pfd q) (S (owners s (pfd q))) |}
  | Releasing =>     (* os.Remove(path) *)
      {| path := None; next := next s; lockedby := lockedby s; marked := marked s;
         procs := upd (procs s) p (mkp Unlinked (pfd q) (pexisting q) (pres q) (pborn q));
         created_by := created_by s; owners := owners s |}
  | Unlinked =>      (* f.Close(): drops the flock *)
      {| path := path s; next := next s;
         lockedby := upd (lockedby s) (pfd q) None; marked := marked s;
         procs := upd (procs s) p (mkp Idle 0 false (pres q) (pborn q));
         created_by := created_by s; owners := owners s |}
  end.

Definition start_acquire (s : kst) (p : nat) : kst :=
  match ppc (procs s p) with
  | Idle => setp s p (mkp TryCreate 0 false NoResult (next s))
  | _ => s
  end.

Definition start_release (s : kst) (p : nat) : kst :=
  let q := procs s p in
  match ppc q with
  | Holder => setp s p (mkp Releasing (pfd q) (pexisting q) (pres q) (pborn q))
  | _ => s
  end.

(* Process death: the kernel closes the descriptor (dropping the flock if the
   process holds it); the path and the file contents stay. *)
Definition die (s : kst) (p : nat) : kst :=
  let q := procs s p in
  {| path := path s; next := next s;
     lockedby := if holdsb (ppc q) then upd (lockedby s) (pfd q) None else lockedby s;
     marked := marked s;
     procs := upd (procs s) p (mkp Idle 0 false NoResult (pborn q));
     created_by := created_by s; owners := owners s |}.

Definition apply_event (s : kst) (e : event) : kst :=
  match e with
  | Step p => run_proc s p
  | Acquire p => start_acquire s p
  | Release p => start_release s p
  | Die p => die s p
  end.

Definition exec (evs : list event) (s : kst) : kst := fold_left apply_event evs s.

Lemma exec_cons e evs s : exec (e :: evs) s = exec evs (apply_event s e).
Proof. reflexivity. Qed.

Lemma exec_app evs1 evs2 s : exec (evs1 ++ evs2) s = exec evs2 (exec evs1 s).
Proof. apply fold_left_app. Qed.

Lemma exec_snoc evs e s : exec (evs ++ [e]) s = apply_event (exec evs s) e.
Proof. now rewrite exec_app. Qed.

(* What a harness compares with the real code. *)
Definition obs (s : kst) (p : nat) := (ppc (procs s p), pfd (procs s p), pres (procs s p)).

(* ------------------------------------------------------------------ *)
(** * Part 2: invariant *)

Record Inv (s : kst) : Prop := {
  i_path_fresh : forall i, path s = Some i -> i < next s;
  i_fd_fresh   : forall p, hasfdb (ppc (procs s p)) = true -> pfd (procs s p) < next s;
  i_owner      : forall i p, lockedby s i = Some p ->
                   pfd (procs s p) = i /\ holdsb (ppc (procs s p)) = true;
  i_holds      : forall p, holdsb (ppc (procs s p)) = true ->
                   lockedby s (pfd (procs s p)) = Some p;
  i_owns_path  : forall p, ownsb (ppc (procs s p)) = true -> path s = Some (pfd (procs s p));
  i_fresh_flag : forall p, hasfdb (ppc (procs s p)) = true -> pexisting (procs s p) = false ->
                   pborn (procs s p) <= pfd (procs s p) /\ created_by s (pfd (procs s p)) = p;
  i_born       : forall p, pborn (procs s p) <= next s;
  i_result     : forall p, sessb (ppc (procs s p)) = true ->
                   pres (procs s p) = Succeeded (pexisting (procs s p));
  i_marked_fresh : forall i, marked s i = true -> i < next s;
  i_unmarked   : forall i, marked s i = false -> owners s i = 0;
  i_marked     : forall i, marked s i = true -> 0 < owners s i;
  i_verified   : forall p, verifb (ppc (procs s p)) = true -> pexisting (procs s p) = false ->
                   marked s (pfd (procs s p)) = false;
  i_sole_owner : forall p, sessb (ppc (procs s p)) = true -> pexisting (procs s p) = false ->
                   owners s (pfd (procs s p)) = 1;
  i_sess_marked : forall p, sessb (ppc (procs s p)) = true -> marked s (pfd (procs s p)) = true }.

Lemma sess_owns c : sessb c = true -> ownsb c = true.
Proof. destruct c; cbn; congruence. Qed.
Lemma verif_owns c : verifb c = true -> ownsb c = true.
Proof. destruct c; cbn; congruence. Qed.
Lemma owns_holds c : ownsb c = true -> holdsb c = true.
Proof. destruct c; cbn; congruence. Qed.
Lemma holds_hasfd c : holdsb c = true -> hasfdb c = true.
Proof. destruct c; cbn; congruence. Qed.

(* --- bounded automation (no open-ended [repeat destruct]) --- *)

Ltac learn H :=
  let T := type of H in
  lazymatch goal with
  | _ : T |- _ => fail
  | _ => pose proof H
  end.

(* split one [upd f k v x] occurrence on x = k and eliminate ALL its occurrences *)
Ltac upd_split :=
  match goal with
  | H : context [upd ?f ?k ?v ?x] |- _ =>
      let e := fresh "e" in
      destruct (Nat.eq_dec x k) as [e|e];
      [ rewrite (upd_eq f k v x e) in * | rewrite (upd_neq f k v x e) in * ]
  | |- context [upd ?f ?k ?v ?x] =>
      let e := fresh "e" in
      destruct (Nat.eq_dec x k) as [e|e];
      [ rewrite (upd_eq f k v x e) in * | rewrite (upd_neq f k v x e) in * ]
  end.

Ltac red_all :=
  cbn [ppc pfd pexisting pres pborn mkp path next lockedby marked procs created_by owners
       setp holdsb hasfdb ownsb sessb verifb orb] in *.

Ltac sat I :=
  repeat match goal with
  | H : sessb ?c = true |- _ => learn (sess_owns c H)
  | H : verifb ?c = true |- _ => learn (verif_owns c H)
  | H : ownsb ?c = true |- _ => learn (owns_holds c H)
  | H : holdsb ?c = true |- _ => learn (holds_hasfd c H)
  | H : lockedby ?s ?i = Some ?q |- _ => learn (i_owner s I i q H)
  | H : holdsb (ppc (procs ?s ?q)) = true |- _ => learn (i_holds s I q H)
  | H : ownsb (ppc (procs ?s ?q)) = true |- _ => learn (i_owns_path s I q H)
  | H : sessb (ppc (procs ?s ?q)) = true |- _ => learn (i_result s I q H)
  | H : sessb (ppc (procs ?s ?q)) = true |- _ => learn (i_sess_marked s I q H)
  | H : hasfdb (ppc (procs ?s ?q)) = true |- _ => learn (i_fd_fresh s I q H)
  | H : hasfdb (ppc (procs ?s ?q)) = true, H2 : pexisting (procs ?s ?q) = false |- _ =>
      learn (i_fresh_flag s I q H H2)
  | H : verifb (ppc (procs ?s ?q)) = true, H2 : pexisting (procs ?s ?q) = false |- _ =>
      learn (i_verified s I q H H2)
  | H : sessb (ppc (procs ?s ?q)) = true, H2 : pexisting (procs ?s ?q) = false |- _ =>
      learn (i_sole_owner s I q H H2)
  | H : path ?s = Some ?i |- _ => learn (i_path_fresh s I i H)
  | H : marked ?s ?i = true |- _ => learn (i_marked_fresh s I i H)
  | H : marked ?s ?i = true |- _ => learn (i_marked s I i H)
  | H : marked ?s ?i = false |- _ => learn (i_unmarked s I i H)
  end.

Ltac finish :=
  try solve [ congruence | lia
            | intuition (try congruence; try lia)
            | intuition (subst; try congruence; try lia) ].

(* p : the acting process, E : ppc (procs s p) = <constructor> *)
Ltac prep s p E :=
  let c := constr:(ppc (procs s p)) in
  assert (holdsb c = holdsb c) as Eh by reflexivity;
  assert (hasfdb c = hasfdb c) as Ef by reflexivity;
  assert (ownsb c = ownsb c) as Eo by reflexivity;
  assert (sessb c = sessb c) as Es by reflexivity;
  assert (verifb c = verifb c) as Ev by reflexivity;
  rewrite E in Eh at 2; rewrite E in Ef at 2; rewrite E in Eo at 2;
  rewrite E in Es at 2; rewrite E in Ev at 2;
  cbn [holdsb hasfdb ownsb sessb verifb] in Eh, Ef, Eo, Es, Ev.

Ltac crush s I :=
  intros; red_all;
  repeat upd_split; red_all;
  repeat match goal with
         | H : Some ?a = Some ?b |- _ => assert (a = b) by congruence; clear H
         end;
  subst; red_all;
  repeat match goal with
         | |- context [procs s ?q] => learn (i_born s I q)
         | H : context [procs s ?q] |- _ => learn (i_born s I q)
         end;
  sat I; finish.

Lemma inv_init : Inv init.
Proof.
  constructor; cbn; intros; try congruence; try lia.
Qed.

Lemma inv_run_proc s p : Inv s -> Inv (run_proc s p).
Proof.
  intros I. unfold run_proc. cbv zeta.
  destruct (ppc (procs s p)) eqn:E; try exact I; prep s p E.
  - (* TryCreate *)
    destruct (path s) eqn:P.
    + constructor; crush s I.
    + constructor; crush s I.
  - (* WantOpen *)
    destruct (path s) eqn:P.
    + constructor; crush s I.
    + constructor; crush s I.
  - (* HaveFd *)
    destruct (lockedby s (pfd (procs s p))) eqn:L.
    + constructor; crush s I.
    + constructor; crush s I.
  - (* Locked *)
    unfold path_is. destruct (path s) eqn:P.
    + destruct (Nat.eqb_spec n (pfd (procs s p))) as [EQ|NE].
      * destruct (pexisting (procs s p)) eqn:X;
          destruct (marked s (pfd (procs s p))) eqn:M; constructor; crush s I.
      * constructor; crush s I.
    + constructor; crush s I.
  - (* Verified *)
    constructor; crush s I.
  - (* Releasing *)
    constructor; crush s I.
  - (* Unlinked *)
    constructor; crush s I.
Qed.

Lemma inv_start_acquire s p : Inv s -> Inv (start_acquire s p).
Proof.
  intros I. unfold start_acquire.
  destruct (ppc (procs s p)) eqn:E; try exact I; prep s p E.
  constructor; crush s I.
Qed.

Lemma inv_start_release s p : Inv s -> Inv (start_release s p).
Proof.
  intros I. unfold start_release. cbv zeta.
  destruct (ppc (procs s p)) eqn:E; try exact I; prep s p E.
  constructor; crush s I.
Qed.

Lemma inv_die s p : Inv s -> Inv (die s p).
Proof.
  intros I. unfold die. cbv zeta.
  destruct (holdsb (ppc (procs s p))) eqn:Eh.
  - constructor; crush s I.
  - constructor; crush s I.
Qed.

Lemma inv_apply_event s e : Inv s -> Inv (apply_event s e).
Proof.
  destruct e; cbn.
  - apply inv_run_proc.
  - apply inv_start_acquire.
  - apply inv_start_release.
  - apply inv_die.
Qed.

Lemma inv_exec evs : forall s, Inv s -> Inv (exec evs s).
Proof.
  induction evs as [|e evs IH]; intros s I; cbn; auto.
  apply IH, inv_apply_event, I.
Qed.

Lemma inv_reachable evs : Inv (exec evs init).
Proof. apply inv_exec, inv_init. Qed.

(* ------------------------------------------------------------------ *)
(** * Part 3: the C13 theorems for the current protocol *)

(** ** State-level consequences of the invariant *)

Lemma inv_owner_owns s p : Inv s -> ownsb (ppc (procs s p)) = true ->
  path s = Some (pfd (procs s p)) /\ lockedby s (pfd (procs s p)) = Some p.
Proof.
  intros I H. split.
  - apply (i_owns_path s I p H).
  - apply (i_holds s I p), owns_holds, H.
Qed.

Lemma inv_owner_unique s p q : Inv s ->
  ownsb (ppc (procs s p)) = true -> ownsb (ppc (procs s q)) = true -> p = q.
Proof.
  intros I Hp Hq.
  destruct (inv_owner_owns s p I Hp) as [Pp Lp].
  destruct (inv_owner_owns s q I Hq) as [Pq Lq].
  congruence.
Qed.

Lemma holder_sess s p : ppc (procs s p) = Holder -> sessb (ppc (procs s p)) = true.
Proof. intros ->. reflexivity. Qed.

(** ** Mutual exclusion *)

(** At most one process is a holder in any reachable state. *)
Theorem C13_mutual_exclusion : forall evs p q,
  let s := exec evs init in
  ppc (procs s p) = Holder -> ppc (procs s q) = Holder -> p = q.
Proof.
  intros evs p q s Hp Hq.
  apply (inv_owner_unique s p q (inv_reachable evs)); apply sess_owns; now apply holder_sess.
Qed.

(** Stronger: exclusion covers the whole interval from a successful verify
    until the holder's unlink (pc Verified, Holder or Releasing). *)
Theorem C13_mutual_exclusion_strong : forall evs p q,
  let s := exec evs init in
  ownsb (ppc (procs s p)) = true -> ownsb (ppc (procs s q)) = true -> p = q.
Proof.
  intros evs p q s. apply inv_owner_unique, inv_reachable.
Qed.

(** A holder holds the flock on the inode the path currently names. *)
Theorem C13_holder_owns_path : forall evs p,
  let s := exec evs init in
  ppc (procs s p) = Holder ->
  path s = Some (pfd (procs s p)) /\ lockedby s (pfd (procs s p)) = Some p.
Proof.
  intros evs p s H. apply inv_owner_owns. apply inv_reachable.
  apply sess_owns. now apply holder_sess.
Qed.

(** The result recorded for a holder is its acquiredExisting flag. *)
Theorem C13_holder_result : forall evs p,
  let s := exec evs init in
  ppc (procs s p) = Holder -> pres (procs s p) = Succeeded (pexisting (procs s p)).
Proof.
  intros evs p s H. apply (i_result s (inv_reachable evs)). now apply holder_sess.
Qed.

(** ** The flag: unclean shutdown is always detected *)

(** Transition form.  When an acquisition completes (the mark step of a
    Verified process) and reports [existing = false], NO process has ever
    completed an acquisition on that inode before: the file is still empty and
    its ghost owner count is 0.  Hence no unclean leftover is ever missed. *)
Theorem C13_fresh_means_never_owned : forall evs p,
  let s := exec evs init in
  let s' := run_proc s p in
  ppc (procs s p) = Verified ->
  pres (procs s' p) = Succeeded false ->
  ppc (procs s' p) = Holder
  /\ marked s (pfd (procs s p)) = false /\ owners s (pfd (procs s p)) = 0.
Proof.
  intros evs p s s' E R.
  assert (I : Inv s) by apply inv_reachable.
  unfold s', run_proc in *. cbv zeta in *. rewrite E in *. cbn in *.
  rewrite upd_same in *. cbn in *.
  assert (X : pexisting (procs s p) = false) by congruence.
  assert (M : marked s (pfd (procs s p)) = false).
  { apply (i_verified s I p); auto. rewrite E. reflexivity. }
  auto using (i_unmarked s I).
Qed.

(** State form.  A holder whose result is [Succeeded false] holds an inode
    that was created by the O_EXCL create of this very attempt, and its own
    acquisition is the only one ever completed on that inode. *)
Theorem C13_fresh_only_if_created : forall evs p,
  let s := exec evs init in
  ppc (procs s p) = Holder -> pres (procs s p) = Succeeded false ->
  owners s (pfd (procs s p)) = 1
  /\ created_by s (pfd (procs s p)) = p
  /\ pborn (procs s p) <= pfd (procs s p).
Proof.
  intros evs p s H R.
  pose proof (inv_reachable evs : Inv s) as I.
  pose proof (holder_sess s p H) as S.
  pose proof (i_result s I p S) as R'.
  assert (X : pexisting (procs s p) = false) by congruence.
  assert (F : hasfdb (ppc (procs s p)) = true) by (rewrite H; reflexivity).
  destruct (i_fresh_flag s I p F X). pose proof (i_sole_owner s I p S X). auto.
Qed.

(* frame and monotonicity lemmas *)

Lemma frame_other s e q : q <> actor e -> procs (apply_event s e) q = procs s q.
Proof.
  intros NE.
  destruct e as [p|p|p|p]; cbn [actor] in NE; cbn [apply_event].
  - unfold run_proc, path_is. cbv zeta.
    destruct (ppc (procs s p)); cbn; auto.
    + destruct (path s); cbn; rewrite upd_other by exact NE; auto.
    + destruct (path s); cbn; rewrite upd_other by exact NE; auto.
    + destruct (lockedby s (pfd (procs s p))); cbn; rewrite upd_other by exact NE; auto.
    + destruct (path s) as [n|]; cbn; [destruct (Nat.eqb n (pfd (procs s p))); cbn|];
        rewrite upd_other by exact NE; auto.
    + rewrite upd_other by exact NE; auto.
    + rewrite upd_other by exact NE; auto.
    + rewrite upd_other by exact NE; auto.
  - unfold start_acquire. destruct (ppc (procs s p)); cbn; rewrite ?upd_other by exact NE; auto.
  - unfold start_release. cbv zeta. destruct (ppc (procs s p)); cbn; rewrite ?upd_other by exact NE; auto.
  - cbn. rewrite upd_other by exact NE. auto.
Qed.

Lemma next_mono s e : next s <= next (apply_event s e).
Proof.
  destruct e as [p|p|p|p]; cbn.
  - unfold run_proc, path_is. cbv zeta.
    destruct (ppc (procs s p)); cbn; auto.
    + destruct (path s); cbn; auto.
    + destruct (path s); cbn; auto.
    + destruct (lockedby s (pfd (procs s p))); cbn; auto.
    + destruct (path s) as [n|]; cbn; auto.
      destruct (Nat.eqb n (pfd (procs s p))); cbn; auto.
  - unfold start_acquire. destruct (ppc (procs s p)); cbn; auto.
  - unfold start_release. cbv zeta. destruct (ppc (procs s p)); cbn; auto.
  - cbn. auto.
Qed.

Lemma owners_mono s e i : owners s i <= owners (apply_event s e) i.
Proof.
  destruct e as [p|p|p|p]; cbn.
  - unfold run_proc, path_is. cbv zeta.
    destruct (ppc (procs s p)); cbn; auto.
    + destruct (path s); cbn; auto.
    + destruct (path s); cbn; auto.
    + destruct (lockedby s (pfd (procs s p))); cbn; auto.
    + destruct (path s) as [n|]; cbn; auto.
      destruct (Nat.eqb n (pfd (procs s p))); cbn; auto.
    + destruct (Nat.eq_dec i (pfd (procs s p))) as [->|NE].
      * rewrite upd_same. lia.
      * rewrite upd_other by exact NE. lia.
  - unfold start_acquire. destruct (ppc (procs s p)); cbn; auto.
  - unfold start_release. cbv zeta. destruct (ppc (procs s p)); cbn; auto.
  - cbn. auto.
Qed.

(* How a process can be in its post-success phase after an event: it already
   was (same descriptor, same flag), or the event was its own mark step. *)
Lemma post_step s e p : postb (ppc (procs (apply_event s e) p)) = true ->
  pfd (procs (apply_event s e) p) = pfd (procs s p)
  /\ pexisting (procs (apply_event s e) p) = pexisting (procs s p)
  /\ (postb (ppc (procs s p)) = true \/ ppc (procs s p) = Verified).
Proof.
  destruct (Nat.eq_dec p (actor e)) as [->|NE].
  2: { rewrite frame_other by exact NE. auto. }
  destruct e as [p|p|p|p]; cbn [actor apply_event].
  all: unfold run_proc, start_acquire, start_release, die, path_is; cbv zeta.
  all: destruct (ppc (procs s p)) eqn:E; cbn.
  all: try (destruct (path s) as [n|]; cbn).
  all: try (destruct (lockedby s (pfd (procs s p))); cbn).
  all: try (destruct (Nat.eqb n _); cbn).
  all: rewrite ?upd_same, ?E; cbn; auto; try congruence.
Qed.

(** Schedule form.  Let some process have completed an acquisition on inode
    [i] by state [s1] ([0 < owners s1 i]: it returned success, i.e. performed
    the mark) -- whether it is still running, died, or was overtaken does not
    matter -- and let [p] be a process whose own completed acquisition on [i],
    if any, is not already present in [s1] (e.g. [p] is idle, or anywhere inside
    createLockFile, even stalled right after creating [i]).  If [p] later is
    holder of that same inode [i] -- which, by [C13_holder_owns_path], is what
    happens whenever the earlier owner never unlinked [i] and [p] succeeds on
    the path -- then [p] reports [existing = true].  No hypothesis on who died
    or when. *)
Theorem C13_unclean_detected : forall evs1 evs2 p i,
  let s1 := exec evs1 init in
  let s2 := exec evs2 s1 in
  0 < owners s1 i ->
  (postb (ppc (procs s1 p)) = true -> pfd (procs s1 p) <> i) ->
  ppc (procs s2 p) = Holder -> pfd (procs s2 p) = i ->
  pres (procs s2 p) = Succeeded true.
Proof.
  intros evs1 evs2 p i s1 s2 O NP H F.
  assert (I1 : Inv s1) by apply inv_reachable.
  assert (K : owners s1 i <= owners s2 i
              /\ (postb (ppc (procs s2 p)) = true -> pfd (procs s2 p) = i ->
                  pexisting (procs s2 p) = true)).
  { unfold s2. clear H F s2.
    induction evs2 as [|e evs2 IH] using rev_ind.
    - cbn. split; [lia|]. intros PB FD. exfalso. apply NP; assumption.
    - rewrite exec_snoc. destruct IH as [IH1 IH2].
      assert (I : Inv (exec evs2 s1)) by (apply inv_exec, I1).
      set (s := exec evs2 s1) in *.
      pose proof (owners_mono s e i) as M.
      split; [lia|]. intros PB FD.
      destruct (post_step s e p PB) as (F1 & F2 & [PS|V]).
      + rewrite F2. apply IH2; congruence.
      + rewrite F2. destruct (pexisting (procs s p)) eqn:X; [reflexivity|exfalso].
        assert (VB : verifb (ppc (procs s p)) = true) by (rewrite V; reflexivity).
        pose proof (i_verified s I p VB X) as MK.
        pose proof (i_unmarked s I _ MK) as OW.
        rewrite <- F1, FD in OW. lia. }
  destruct K as [_ K].
  assert (I2 : Inv s2) by (apply inv_exec, I1).
  rewrite (i_result s2 I2 p (holder_sess s2 p H)).
  rewrite K; auto. rewrite H. reflexivity.
Qed.

(** In particular: a holder dies; whoever next becomes holder of the inode the
    dead holder held -- including a process that was stalled inside
    createLockFile the whole time -- reports true. *)
Corollary C13_dead_holder_detected : forall evs1 evs2 q p,
  let s0 := exec evs1 init in
  let s1 := apply_event s0 (Die q) in
  let s2 := exec evs2 s1 in
  ppc (procs s0 q) = Holder ->
  ppc (procs s2 p) = Holder -> pfd (procs s2 p) = pfd (procs s0 q) ->
  pres (procs s2 p) = Succeeded true.
Proof.
  intros evs1 evs2 q p s0 s1 s2 Hq H2 F.
  assert (I0 : Inv s0) by apply inv_reachable.
  assert (E1 : s1 = exec (evs1 ++ [Die q]) init) by (unfold s1, s0; now rewrite exec_snoc).
  pose proof (holder_sess s0 q Hq) as S.
  assert (O : 0 < owners s1 (pfd (procs s0 q))).
  { change (owners s1) with (owners s0).
    apply (i_marked s0 I0), (i_sess_marked s0 I0 q S). }
  assert (NP : postb (ppc (procs s1 p)) = true -> pfd (procs s1 p) <> pfd (procs s0 q)).
  { destruct (Nat.eq_dec p q) as [->|NE].
    - unfold s1. cbn. rewrite upd_same. cbn. discriminate.
    - unfold s1. rewrite frame_other by exact NE. intros PB EQ.
      assert (HP : holdsb (ppc (procs s0 p)) = true) by (destruct (ppc (procs s0 p)); cbn in *; congruence).
      pose proof (i_holds s0 I0 p HP) as L1.
      pose proof (i_holds s0 I0 q (owns_holds _ (sess_owns _ S))) as L2.
      apply NE. congruence. }
  unfold s2 in *. rewrite E1 in *.
  eapply C13_unclean_detected; eauto.
Qed.

(** ** Leftover lock files (independent of the mark) *)

Lemma born_step_busy s e q : ppc (procs s q) <> Idle ->
  pborn (procs (apply_event s e) q) = pborn (procs s q).
Proof.
  intros Q.
  destruct (Nat.eq_dec q (actor e)) as [->|NE].
  2: { now rewrite frame_other by exact NE. }
  destruct e as [p|p|p|p]; cbn [actor] in *; cbn [apply_event].
  all: unfold run_proc, start_acquire, start_release, die, path_is; cbv zeta.
  all: try (destruct (ppc (procs s p)); try congruence; cbn).
  all: try (destruct (path s); cbn).
  all: try (destruct (lockedby s (pfd (procs s p))); cbn).
  all: try (destruct (Nat.eqb _ _); cbn).
  all: rewrite ?upd_same; cbn; auto.
Qed.

Lemma born_step_idle s e q : ppc (procs s q) = Idle ->
  ppc (procs (apply_event s e) q) = Idle \/ pborn (procs (apply_event s e) q) = next s.
Proof.
  intros Q.
  destruct (Nat.eq_dec q (actor e)) as [->|NE].
  - destruct e as [p|p|p|p]; cbn [actor] in Q; cbn [apply_event].
    + unfold run_proc. cbv zeta. rewrite Q. auto.
    + unfold start_acquire. rewrite Q. cbn. rewrite upd_same. cbn. auto.
    + unfold start_release. cbv zeta. rewrite Q. auto.
    + unfold die. cbn. rewrite upd_same. cbn. auto.
  - left. rewrite frame_other by exact NE. exact Q.
Qed.

Lemma born_after evs2 s1 p : ppc (procs s1 p) = Idle ->
  next s1 <= next (exec evs2 s1)
  /\ (ppc (procs (exec evs2 s1) p) <> Idle -> next s1 <= pborn (procs (exec evs2 s1) p)).
Proof.
  intros Q. induction evs2 as [|e evs2 IH] using rev_ind.
  - cbn. split; [lia | congruence].
  - rewrite exec_snoc. destruct IH as [IH1 IH2].
    pose proof (next_mono (exec evs2 s1) e) as M.
    split; [lia|]. intros NI.
    destruct (ppc (procs (exec evs2 s1) p)) eqn:Q2.
    1: { destruct (born_step_idle _ e p Q2) as [B|B]; [congruence | lia]. }
    all: rewrite born_step_busy by congruence; apply IH2; congruence.
Qed.

(** Any lock file that already exists when an attempt starts -- whether or not
    anybody ever completed an acquisition on it (e.g. its creator died before
    flock) -- yields [existing = true] if that attempt ends up holding it. *)
Theorem C13_leftover_detected : forall evs1 evs2 p i,
  let s1 := exec evs1 init in
  let s2 := exec evs2 s1 in
  path s1 = Some i ->
  ppc (procs s1 p) = Idle ->
  ppc (procs s2 p) = Holder -> pfd (procs s2 p) = i ->
  pres (procs s2 p) = Succeeded true.
Proof.
  intros evs1 evs2 p i s1 s2 P Q H F.
  assert (I1 : Inv s1) by apply inv_reachable.
  assert (I2 : Inv s2) by (apply inv_exec, I1).
  pose proof (i_result s2 I2 p (holder_sess s2 p H)) as R.
  rewrite R. destruct (pexisting (procs s2 p)) eqn:X; [reflexivity|exfalso].
  assert (HF : hasfdb (ppc (procs s2 p)) = true) by (rewrite H; reflexivity).
  destruct (i_fresh_flag s2 I2 p HF X) as [B _].
  destruct (born_after evs2 s1 p Q) as [_ B2]. fold s2 in B2.
  assert (next s1 <= pborn (procs s2 p)) by (apply B2; congruence).
  pose proof (i_path_fresh s1 I1 i P). lia.
Qed.

(** ** The flag, converse direction: refuted under concurrency *)

(* Processes: C = 0, B = 1, A = 2.
   A opens and closes cleanly; then C creates the file, B overtakes C. *)
Definition sched_flag_race : list event :=
  [ Acquire 2; Step 2; Step 2; Step 2; Step 2;  (* A: create, flock, verify, mark -> holder, existing=false *)
    Release 2; Step 2; Step 2;             (* A: unlink, close   -- clean shutdown              *)
    Acquire 0; Acquire 1;
    Step 0;                                (* C: O_EXCL create succeeds (inode 1)               *)
    Step 1;                                (* B: O_EXCL -> EEXIST                               *)
    Step 1;                                (* B: open C's inode                                 *)
    Step 1;                                (* B: flock succeeds before C tried                  *)
    Step 1;                                (* B: verify ok (size 0, but acquiredExisting = true)*)
    Step 1;                                (* B: mark -> holder, existing = TRUE                *)
    Step 0 ].                              (* C: flock -> EWOULDBLOCK -> FailedLocked           *)

(** Nobody ever died, the previous holder (process 2) released cleanly and
    every process other than the winner is out of the protocol, yet the winner
    (process 1) reports [existing = true] (a needless recovery); the process
    that created the file (process 0) fails as "locked". *)
Theorem C13_flag_race_refuted : exists evs p,
  let s := exec evs init in
  forallb (fun e => negb (is_die e)) evs = true
  /\ (forall q, q <> p -> ppc (procs s q) = Idle)
  /\ pres (procs s 2) = Succeeded false          (* an earlier, cleanly closed session *)
  /\ pres (procs s 0) = FailedLocked             (* the creator of the file lost       *)
  /\ ppc (procs s p) = Holder
  /\ owners s (pfd (procs s p)) = 1              (* first acquisition ever on this inode *)
  /\ pres (procs s p) = Succeeded true.
Proof.
  exists sched_flag_race, 1. cbv zeta.
  split; [vm_compute; reflexivity|].
  split.
  { intros q Hq. destruct q as [|[|[|q]]]; try congruence; vm_compute; reflexivity. }
  repeat split; vm_compute; reflexivity.
Qed.

(** ** A competing Open changes nothing *)

Lemma path_change s e :
  path (apply_event s e) = path s
  \/ (exists p, e = Step p /\ ppc (procs s p) = TryCreate /\ path s = None
                /\ path (apply_event s e) = Some (next s))
  \/ (exists p, e = Step p /\ ppc (procs s p) = Releasing /\ path (apply_event s e) = None).
Proof.
  destruct e as [p|p|p|p]; cbn [apply_event].
  - unfold run_proc, path_is. cbv zeta.
    destruct (ppc (procs s p)) eqn:E; cbn; auto.
    + destruct (path s) eqn:P; cbn; auto.
      right; left. exists p. auto.
    + destruct (path s) eqn:P; cbn; auto.
    + destruct (lockedby s (pfd (procs s p))); cbn; auto.
    + destruct (path s) as [n|] eqn:P; cbn; auto.
      destruct (Nat.eqb n (pfd (procs s p))); cbn; auto.
    + right; right. exists p. auto.
  - unfold start_acquire. destruct (ppc (procs s p)); cbn; auto.
  - unfold start_release. cbv zeta. destruct (ppc (procs s p)); cbn; auto.
  - cbn. auto.
Qed.

(** Every event of a process that is not in session (holder / releasing holder)
    preserves the path, the only exception being a successful O_EXCL create on
    an ABSENT path.  In particular a failing attempt never unlinks and never
    replaces an existing lock file. *)
Theorem C13_loser_changes_nothing : forall evs e,
  let s := exec evs init in
  let s' := apply_event s e in
  sessb (ppc (procs s (actor e))) = false ->
  path s' = path s
  \/ (path s = None /\ e = Step (actor e) /\ ppc (procs s (actor e)) = TryCreate
      /\ path s' = Some (next s)).
Proof.
  intros evs e s s' NS.
  destruct (path_change s e) as [H|[(p & -> & E & P & P')|(p & -> & E & P')]].
  - left. exact H.
  - right. cbn [actor]. auto.
  - exfalso. cbn [actor] in NS. rewrite E in NS. discriminate.
Qed.

(** No event of process [actor e] ever removes the flock of another process. *)
Lemma others_keep_flock s e i q : Inv s ->
  lockedby s i = Some q -> q <> actor e -> lockedby (apply_event s e) i = Some q.
Proof.
  intros I L NE.
  destruct e as [p|p|p|p]; cbn [actor] in NE; cbn [apply_event].
  - unfold run_proc, path_is. cbv zeta.
    destruct (ppc (procs s p)) eqn:E; cbn; auto; prep s p E.
    + destruct (path s); cbn; auto.
    + destruct (path s); cbn; auto.
    + destruct (lockedby s (pfd (procs s p))) eqn:L2; cbn; auto. crush s I.
    + destruct (path s) as [n|]; cbn; auto;
        [destruct (Nat.eqb n (pfd (procs s p))); cbn; auto|]; crush s I.
    + crush s I.
  - unfold start_acquire. destruct (ppc (procs s p)); cbn; auto.
  - unfold start_release. cbv zeta. destruct (ppc (procs s p)); cbn; auto.
  - unfold die. cbn. destruct (holdsb (ppc (procs s p))) eqn:Eh; auto. crush s I.
Qed.

(** The mark byte is only ever written by the process that owns the path. *)
Lemma marked_change s e i :
  marked (apply_event s e) i = marked s i
  \/ (e = Step (actor e) /\ ppc (procs s (actor e)) = Verified /\ i = pfd (procs s (actor e))).
Proof.
  destruct e as [p|p|p|p]; cbn [apply_event actor].
  - unfold run_proc, path_is. cbv zeta.
    destruct (ppc (procs s p)) eqn:E; cbn; auto.
    + destruct (path s); cbn; auto.
    + destruct (path s); cbn; auto.
    + destruct (lockedby s (pfd (procs s p))); cbn; auto.
    + destruct (path s) as [n|]; cbn; auto.
      destruct (Nat.eqb n (pfd (procs s p))); cbn; auto.
    + destruct (Nat.eq_dec i (pfd (procs s p))) as [->|NE]; auto.
      rewrite upd_other by exact NE. auto.
  - unfold start_acquire. destruct (ppc (procs s p)); cbn; auto.
  - unfold start_release. cbv zeta. destruct (ppc (procs s p)); cbn; auto.
  - cbn. auto.
Qed.

(** While some process [q] is in session, no event of any OTHER process changes
    the path, the lock file's contents, [q]'s flock, or [q]'s own state:
    a competing Open changes nothing. *)
Theorem C13_competitor_changes_nothing : forall evs e q,
  let s := exec evs init in
  let s' := apply_event s e in
  sessb (ppc (procs s q)) = true -> actor e <> q ->
  path s' = path s
  /\ marked s' (pfd (procs s q)) = marked s (pfd (procs s q))
  /\ lockedby s' (pfd (procs s q)) = Some q
  /\ procs s' q = procs s q.
Proof.
  intros evs e q s s' S NE.
  assert (I : Inv s) by apply inv_reachable.
  pose proof (sess_owns _ S) as O.
  destruct (inv_owner_owns s q I O) as [P L].
  split; [|split; [|split]].
  - destruct (path_change s e) as [H|[(p & -> & E & P0 & _)|(p & -> & E & _)]]; auto.
    + congruence.
    + exfalso. apply NE. cbn.
      apply (inv_owner_unique s p q I); auto. rewrite E. reflexivity.
  - destruct (marked_change s e (pfd (procs s q))) as [H|(_ & E & F)]; auto.
    exfalso. apply NE.
    assert (HV : holdsb (ppc (procs s (actor e))) = true) by (rewrite E; reflexivity).
    pose proof (i_holds s I _ HV) as L2. rewrite <- F in L2. congruence.
  - apply others_keep_flock; auto.
  - apply frame_other. auto.
Qed.

(** An attempt fails as "locked" only because ANOTHER process really holds the
    flock on the inode it opened; the failing step changes neither the path,
    nor any file contents, nor any flock. *)
Theorem C13_failed_means_locked : forall evs p,
  let s := exec evs init in
  let s' := run_proc s p in
  ppc (procs s p) = HaveFd -> pres (procs s' p) = FailedLocked ->
  (exists q, q <> p /\ lockedby s (pfd (procs s p)) = Some q)
  /\ path s' = path s /\ lockedby s' = lockedby s /\ marked s' = marked s.
Proof.
  intros evs p s s' E R.
  assert (I : Inv s) by apply inv_reachable.
  unfold s', run_proc in *. cbv zeta in *. rewrite E in *.
  destruct (lockedby s (pfd (procs s p))) as [q|] eqn:L; cbn in *.
  - split; auto. exists q. split; auto. intros ->.
    destruct (i_owner s I _ _ L) as [_ H]. rewrite E in H. discriminate.
  - rewrite upd_same in R. cbn in R. discriminate.
Qed.

(** ** The flag is exact for an undisturbed attempt *)

Lemma run_fix s p k : run_proc s p = s -> exec (repeat (Step p) k) s = s.
Proof.
  intros H. induction k as [|k IH]; [reflexivity|].
  cbn [repeat]. rewrite exec_cons. cbn [apply_event]. now rewrite H.
Qed.

Lemma run_idle s p : ppc (procs s p) = Idle -> run_proc s p = s.
Proof. intros H. unfold run_proc. cbv zeta. now rewrite H. Qed.
Lemma run_holder s p : ppc (procs s p) = Holder -> run_proc s p = s.
Proof. intros H. unfold run_proc. cbv zeta. now rewrite H. Qed.

(* The part of the state a solo run of p depends on. *)
Record same_env (s s' : kst) : Prop := {
  se_path : path s' = path s; se_next : next s' = next s;
  se_lock : lockedby s' = lockedby s; se_mark : marked s' = marked s }.

Lemma obs_acquire s p : ppc (procs s p) = Idle ->
  let s' := start_acquire s p in
  ppc (procs s' p) = TryCreate /\ same_env s s'.
Proof.
  intros E. unfold start_acquire. rewrite E. cbn. rewrite upd_same. cbn.
  split; [reflexivity|constructor; reflexivity].
Qed.

Lemma obs_create s p : ppc (procs s p) = TryCreate -> path s = None ->
  let s' := run_proc s p in
  ppc (procs s' p) = HaveFd /\ pfd (procs s' p) = next s /\ pexisting (procs s' p) = false
  /\ path s' = Some (next s) /\ lockedby s' = lockedby s /\ marked s' = marked s.
Proof.
  intros E P. unfold run_proc. cbv zeta. rewrite E, P. cbn. rewrite upd_same. cbn. auto 10.
Qed.

Lemma obs_eexist s p i : ppc (procs s p) = TryCreate -> path s = Some i ->
  let s' := run_proc s p in
  ppc (procs s' p) = WantOpen /\ same_env s s'.
Proof.
  intros E P. unfold run_proc. cbv zeta. rewrite E, P. cbn. rewrite upd_same. cbn.
  split; [reflexivity|constructor; reflexivity].
Qed.

Lemma obs_open s p i : ppc (procs s p) = WantOpen -> path s = Some i ->
  let s' := run_proc s p in
  ppc (procs s' p) = HaveFd /\ pfd (procs s' p) = i /\ pexisting (procs s' p) = true
  /\ same_env s s'.
Proof.
  intros E P. unfold run_proc. cbv zeta. rewrite E, P. cbn. rewrite upd_same. cbn.
  repeat split; reflexivity.
Qed.

Lemma obs_flock_ok s p : ppc (procs s p) = HaveFd -> lockedby s (pfd (procs s p)) = None ->
  let s' := run_proc s p in
  ppc (procs s' p) = Locked /\ pfd (procs s' p) = pfd (procs s p)
  /\ pexisting (procs s' p) = pexisting (procs s p)
  /\ path s' = path s /\ marked s' = marked s.
Proof.
  intros E L. unfold run_proc. cbv zeta. rewrite E, L. cbn. rewrite upd_same. cbn. auto.
Qed.

Lemma obs_flock_fail s p q : ppc (procs s p) = HaveFd -> lockedby s (pfd (procs s p)) = Some q ->
  let s' := run_proc s p in ppc (procs s' p) = Idle.
Proof.
  intros E L. unfold run_proc. cbv zeta. rewrite E, L. cbn. rewrite upd_same. reflexivity.
Qed.

Lemma obs_verify_ok s p : ppc (procs s p) = Locked -> path s = Some (pfd (procs s p)) ->
  let s' := run_proc s p in
  ppc (procs s' p) = Verified
  /\ pexisting (procs s' p) = (pexisting (procs s p) || marked s (pfd (procs s p))).
Proof.
  intros E P. unfold run_proc, path_is. cbv zeta. rewrite E, P, Nat.eqb_refl. cbn.
  rewrite upd_same. cbn. auto.
Qed.

Lemma obs_mark s p : ppc (procs s p) = Verified ->
  let s' := run_proc s p in
  ppc (procs s' p) = Holder /\ pres (procs s' p) = Succeeded (pexisting (procs s p)).
Proof.
  intros E. unfold run_proc. cbv zeta. rewrite E. cbn. rewrite upd_same. cbn. auto.
Qed.

(** If, from any reachable state in which [p] is idle, [p] starts an attempt
    and runs it alone ([k] consecutive steps of [p], nobody else moves) and ends
    up as holder, then it reports [existing = true] iff the lock path existed
    when the attempt started.  (Combined with [C13_holder_owns_path]: the path
    exists in a state without holder/releaser iff the last owner did not
    unlink, i.e. did not complete a clean release.) *)
Theorem C13_flag_exact_sequential : forall evs p k,
  let s0 := exec evs init in
  let s1 := exec (Acquire p :: repeat (Step p) k) s0 in
  ppc (procs s0 p) = Idle ->
  ppc (procs s1 p) = Holder ->
  pres (procs s1 p) = Succeeded (match path s0 with Some _ => true | None => false end).
Proof.
  intros evs p k s0 s1 Q0.
  assert (I0 : Inv s0) by apply inv_reachable.
  unfold s1. rewrite exec_cons. cbn [apply_event].
  destruct (obs_acquire s0 p Q0) as (A1 & [A2 A3 A4 A5]).
  set (sa := start_acquire s0 p) in *.
  destruct (path s0) as [i|] eqn:P0.
  - (* the path exists: EEXIST, open, flock, verify, mark *)
    destruct k as [|k]; [cbn; congruence|]. cbn [repeat]. rewrite exec_cons. cbn [apply_event].
    destruct (obs_eexist sa p i A1 A2) as (B1 & [B2 B3 B4 B5]).
    set (sb := run_proc sa p) in *.
    destruct k as [|k]; [cbn; congruence|]. cbn [repeat]. rewrite exec_cons. cbn [apply_event].
    assert (B2' : path sb = Some i) by congruence.
    destruct (obs_open sb p i B1 B2') as (C1 & C2 & C3 & [C4 C5 C6 C7]).
    set (sc := run_proc sb p) in *.
    destruct k as [|k]; [cbn; congruence|]. cbn [repeat]. rewrite exec_cons. cbn [apply_event].
    destruct (lockedby sc (pfd (procs sc p))) as [q|] eqn:L.
    + (* locked by somebody else: the attempt fails, p stays idle *)
      pose proof (obs_flock_fail sc p q C1 L) as D1.
      rewrite (run_fix _ p k (run_idle _ p D1)). congruence.
    + destruct (obs_flock_ok sc p C1 L) as (D1 & D2 & D3 & D4 & D5).
      set (sd := run_proc sc p) in *.
      destruct k as [|k]; [cbn; congruence|]. cbn [repeat]. rewrite exec_cons. cbn [apply_event].
      assert (D4' : path sd = Some (pfd (procs sd p))) by congruence.
      destruct (obs_verify_ok sd p D1 D4') as (E1 & E2).
      set (se := run_proc sd p) in *.
      destruct k as [|k]; [cbn; congruence|]. cbn [repeat]. rewrite exec_cons. cbn [apply_event].
      destruct (obs_mark se p E1) as (F1 & F2).
      rewrite (run_fix _ p k (run_holder _ p F1)). intros _.
      rewrite F2, E2, D3, C3. reflexivity.
  - (* the path is absent: create, flock, verify, mark *)
    destruct k as [|k]; [cbn; congruence|]. cbn [repeat]. rewrite exec_cons. cbn [apply_event].
    destruct (obs_create sa p A1 A2) as (B1 & B2 & B3 & B4 & B5 & B6).
    set (sb := run_proc sa p) in *.
    destruct k as [|k]; [cbn; congruence|]. cbn [repeat]. rewrite exec_cons. cbn [apply_event].
    (* the fresh inode is neither locked nor marked *)
    assert (L : lockedby sb (pfd (procs sb p)) = None).
    { rewrite B2, B5, A4, A3.
      destruct (lockedby s0 (next s0)) as [q|] eqn:L; auto. exfalso.
      destruct (i_owner s0 I0 _ _ L) as [F H].
      pose proof (i_fd_fresh s0 I0 q (holds_hasfd _ H)). lia. }
    assert (M : marked sb (pfd (procs sb p)) = false).
    { rewrite B2, B6, A5, A3.
      destruct (marked s0 (next s0)) eqn:M; auto. exfalso.
      pose proof (i_marked_fresh s0 I0 _ M). lia. }
    destruct (obs_flock_ok sb p B1 L) as (C1 & C2 & C3 & C4 & C5).
    set (sc := run_proc sb p) in *.
    destruct k as [|k]; [cbn; congruence|]. cbn [repeat]. rewrite exec_cons. cbn [apply_event].
    assert (C4' : path sc = Some (pfd (procs sc p))) by congruence.
    destruct (obs_verify_ok sc p C1 C4') as (D1 & D2).
    set (sd := run_proc sc p) in *.
    destruct k as [|k]; [cbn; congruence|]. cbn [repeat]. rewrite exec_cons. cbn [apply_event].
    destruct (obs_mark sd p D1) as (E1 & E2).
    rewrite (run_fix _ p k (run_holder _ p E1)). intros _.
    rewrite E2, D2, C3, B3, C2, C5, M. reflexivity.
Qed.

(* ------------------------------------------------------------------ *)
(** * Part 4: the intermediate repair without the mark (verify only)

    Same protocol as above but success is returned right after the verify step
    and the file is never written.  Mutual exclusion holds for it as well, but
    "unclean shutdown is always detected" does not: the witness below is why
    the mark byte was added. *)

Module NoMark.

Inductive pc := Idle | TryCreate | WantOpen | HaveFd | Locked | Holder | Releasing | Unlinked.

Record proc := { ppc : pc; pfd : nat; pexisting : bool; pres : outcome }.
Definition mkp c fd ex r : proc := {| ppc := c; pfd := fd; pexisting := ex; pres := r |}.

Record kst := {
  path     : option nat;
  next     : nat;
  lockedby : nat -> option nat;
  procs    : nat -> proc;
  owners   : nat -> nat          (* GHOST: acquisitions completed per inode *)
}.

Definition init : kst :=
  {| path := None; next := 0; lockedby := fun _ => None;
     procs := fun _ => mkp Idle 0 false NoResult; owners := fun _ => 0 |}.

Definition setp (s : kst) (p : nat) (q : proc) : kst :=
  {| path := path s; next := next s; lockedby := lockedby s;
     procs := upd (procs s) p q; owners := owners s |}.

Definition holdsb (c : pc) : bool :=
  match c with Locked | Holder | Releasing | Unlinked => true | _ => false end.

Definition path_is (s : kst) (i : nat) : bool :=
  match path s with Some j => Nat.eqb j i | None => false end.

Definition run_proc (s : kst) (p : nat) : kst :=
  let q := procs s p in
  match ppc q with
  | Idle => s
  | Holder => s
  | TryCreate =>
      match path s with
      | None =>
          {| path := Some (next s); next := S (next s); lockedby := lockedby s;
             procs := upd (procs s) p (mkp HaveFd (next s) false NoResult);
             owners := owners s |}
      | Some _ => setp s p (mkp WantOpen 0 true NoResult)
      end
  | WantOpen =>
      match path s with
      | Some i => setp s p (mkp HaveFd i true NoResult)
      | None   => setp s p (mkp TryCreate 0 false NoResult)
      end
  | HaveFd =>
      match lockedby s (pfd q) with
      | None =>
          {| path := path s; next := next s;
             lockedby := upd (lockedby s) (pfd q) (Some p);
             procs := upd (procs s) p (mkp Locked (pfd q) (pexisting q) NoResult);
             owners := owners s |}
      | Some _ => setp s p (mkp Idle 0 false FailedLocked)
      end
  | Locked =>
      if path_is s (pfd q)
      then {| path := path s; next := next s; lockedby := lockedby s;
              procs := upd (procs s) p
                         (mkp Holder (pfd q) (pexisting q) (Succeeded (pexisting q)));
              owners := upd (owners s) (pfd q) (S (owners s (pfd q))) |}
      else {| path := path s; next := next s;
              lockedby := upd (lockedby s) (pfd q) None;
              procs := upd (procs s) p (mkp TryCreate 0 false NoResult);
              owners := owners s |}
  | Releasing =>
      {| path := None; next := next s; lockedby := lockedby s;
         procs := upd (procs s) p (mkp Unlinked (pfd q) (pexisting q) (pres q));
         owners := owners s |}
  | Unlinked =>
      {| path := path s; next := next s;
         lockedby := upd (lockedby s) (pfd q) None;
         procs := upd (procs s) p (mkp Idle 0 false (pres q));
         owners := owners s |}
  end.

Definition start_acquire (s : kst) (p : nat) : kst :=
  match ppc (procs s p) with
  | Idle => setp s p (mkp TryCreate 0 false NoResult)
  | _ => s
  end.

Definition start_release (s : kst) (p : nat) : kst :=
  let q := procs s p in
  match ppc q with
  | Holder => setp s p (mkp Releasing (pfd q) (pexisting q) (pres q))
  | _ => s
  end.

Definition die (s : kst) (p : nat) : kst :=
  let q := procs s p in
  {| path := path s; next := next s;
     lockedby := if holdsb (ppc q) then upd (lockedby s) (pfd q) None else lockedby s;
     procs := upd (procs s) p (mkp Idle 0 false NoResult);
     owners := owners s |}.

Definition apply_event (s : kst) (e : event) : kst :=
  match e with
  | Step p => run_proc s p
  | Acquire p => start_acquire s p
  | Release p => start_release s p
  | Die p => die s p
  end.

Definition exec (evs : list event) (s : kst) : kst := fold_left apply_event evs s.

(* Processes: C = 0, B = 1. *)
Definition sched_residual_prefix : list event :=
  [ Acquire 0; Acquire 1;
    Step 0;                                (* C: O_EXCL create (inode 0), then stalls           *)
    Step 1; Step 1; Step 1; Step 1 ].      (* B: EEXIST, open, flock, verify -> holder (true)   *)
Definition sched_residual_suffix : list event :=
  [ Step 0; Step 0 ].                      (* C: flock ok, verify ok -> holder, existing=false  *)

(** The process that created the lock file is overtaken by a second opener
    that becomes holder and DIES; the creator then succeeds on that same inode
    and reports [existing = false].  Two acquisitions completed on the inode,
    the first ended uncleanly, the second does not notice. *)
Theorem C13_unclean_race_residual : exists evs1 evs2 q p,
  let s1 := exec evs1 init in
  let s2 := exec (Die q :: evs2) s1 in
  ppc (procs s1 q) = Holder
  /\ ppc (procs s1 p) = HaveFd                   (* p is mid-attempt: it created the file *)
  /\ ppc (procs s2 p) = Holder
  /\ pfd (procs s2 p) = pfd (procs s1 q)
  /\ path s2 = Some (pfd (procs s2 p))
  /\ owners s2 (pfd (procs s2 p)) = 2
  /\ pres (procs s2 p) = Succeeded false.
Proof.
  exists sched_residual_prefix, sched_residual_suffix, 1, 0.
  vm_compute. repeat split; reflexivity.
Qed.

End NoMark.

(** The very same schedule on the current protocol (one extra step each for the
    mark): the stalled creator now reports [existing = true]. *)
Example residual_race_closed :
  let s1 := exec [Acquire 0; Acquire 1; Step 0; Step 1; Step 1; Step 1; Step 1; Step 1] init in
  let s2 := exec [Die 1; Step 0; Step 0; Step 0] s1 in
  ppc (procs s1 1) = Holder /\ ppc (procs s1 0) = HaveFd
  /\ ppc (procs s2 0) = Holder /\ pfd (procs s2 0) = pfd (procs s1 1)
  /\ owners s2 (pfd (procs s2 0)) = 2
  /\ pres (procs s2 0) = Succeeded true.
Proof. vm_compute. repeat split; reflexivity. Qed.

(* ------------------------------------------------------------------ *)
(** * Part 5: the pinned (old, defective) protocol

    acquire:  stat(path)            existing := path exists
              open(O_RDWR|O_CREATE) creates if absent, else opens what is there
              flock(LOCK_EX|LOCK_NB) fail -> "locked"; success -> holder at once
    release:  unlink(path) ; close *)

Module Pinned.

Inductive pc := Idle | WantStat | WantOpen | HaveFd | Holder | Releasing | Unlinked.

Record proc := { ppc : pc; pfd : nat; pexisting : bool; pres : outcome }.
Definition mkp c fd ex r : proc := {| ppc := c; pfd := fd; pexisting := ex; pres := r |}.

Record kst := {
  path     : option nat;
  next     : nat;
  lockedby : nat -> option nat;
  procs    : nat -> proc
}.

Definition init : kst :=
  {| path := None; next := 0; lockedby := fun _ => None;
     procs := fun _ => mkp Idle 0 false NoResult |}.

Definition setp (s : kst) (p : nat) (q : proc) : kst :=
  {| path := path s; next := next s; lockedby := lockedby s; procs := upd (procs s) p q |}.

Definition holdsb (c : pc) : bool :=
  match c with Holder | Releasing | Unlinked => true | _ => false end.

Definition run_proc (s : kst) (p : nat) : kst :=
  let q := procs s p in
  match ppc q with
  | Idle => s
  | Holder => s
  | WantStat =>      (* os.Stat(name) *)
      setp s p (mkp WantOpen 0 (match path s with Some _ => true | None => false end) NoResult)
  | WantOpen =>      (* os.OpenFile(name, O_RDWR|O_CREATE) *)
      match path s with
      | Some i => setp s p (mkp HaveFd i (pexisting q) NoResult)
      | None =>
          {| path := Some (next s); next := S (next s); lockedby := lockedby s;
             procs := upd (procs s) p (mkp HaveFd (next s) (pexisting q) NoResult) |}
      end
  | HaveFd =>        (* flock *)
      match lockedby s (pfd q) with
      | None =>
          {| path := path s; next := next s;
             lockedby := upd (lockedby s) (pfd q) (Some p);
             procs := upd (procs s) p
                        (mkp Holder (pfd q) (pexisting q) (Succeeded (pexisting q))) |}
      | Some _ => setp s p (mkp Idle 0 false FailedLocked)
      end
  | Releasing =>
      {| path := None; next := next s; lockedby := lockedby s;
         procs := upd (procs s) p (mkp Unlinked (pfd q) (pexisting q) (pres q)) |}
  | Unlinked =>
      {| path := path s; next := next s;
         lockedby := upd (lockedby s) (pfd q) None;
         procs := upd (procs s) p (mkp Idle 0 false (pres q)) |}
  end.

Definition start_acquire (s : kst) (p : nat) : kst :=
  match ppc (procs s p) with
  | Idle => setp s p (mkp WantStat 0 false NoResult)
  | _ => s
  end.

Definition start_release (s : kst) (p : nat) : kst :=
  let q := procs s p in
  match ppc q with
  | Holder => setp s p (mkp Releasing (pfd q) (pexisting q) (pres q))
  | _ => s
  end.

Definition die (s : kst) (p : nat) : kst :=
  let q := procs s p in
  {| path := path s; next := next s;
     lockedby := if holdsb (ppc q) then upd (lockedby s) (pfd q) None else lockedby s;
     procs := upd (procs s) p (mkp Idle 0 false NoResult) |}.

Definition apply_event (s : kst) (e : event) : kst :=
  match e with
  | Step p => run_proc s p
  | Acquire p => start_acquire s p
  | Release p => start_release s p
  | Die p => die s p
  end.

Definition exec (evs : list event) (s : kst) : kst := fold_left apply_event evs s.

(* Processes: A = 0, B = 1, C = 2. *)
Definition sched_two_holders : list event :=
  [ Acquire 0; Step 0; Step 0; Step 0;     (* A: stat, open (creates inode 0), flock -> holder  *)
    Acquire 1; Step 1; Step 1;             (* B: stat (exists), open A's inode 0                *)
    Release 0; Step 0; Step 0;             (* A: unlink, close                                  *)
    Step 1;                                (* B: flock inode 0 -> holder on an UNLINKED inode   *)
    Acquire 2; Step 2; Step 2; Step 2 ].   (* C: stat (absent), open (creates inode 1), flock -> holder *)

(** Two distinct processes are holders at the same time, and nobody died. *)
Theorem two_holders_refuted : exists evs p q,
  let s := exec evs init in
  p <> q
  /\ forallb (fun e => negb (is_die e)) evs = true
  /\ ppc (procs s p) = Holder /\ ppc (procs s q) = Holder
  /\ path s = Some (pfd (procs s q)) /\ pfd (procs s p) <> pfd (procs s q).
Proof.
  exists sched_two_holders, 1, 2. vm_compute.
  repeat split; try reflexivity; intros H; discriminate H.
Qed.

(* Spurious flag: stat sees A's file, A then closes cleanly, B creates a new
   file and reports existing = true.  Nobody died. *)
Definition sched_flag_spurious : list event :=
  [ Acquire 0; Step 0; Step 0; Step 0;     (* A holder (existing=false) *)
    Acquire 1; Step 1;                     (* B: stat -> exists *)
    Release 0; Step 0; Step 0;             (* A: unlink, close *)
    Step 1; Step 1 ].                      (* B: open (creates inode 1), flock -> holder, existing=TRUE *)

(* Missed flag: B stats an absent path; A creates the file, becomes holder and
   DIES; B opens A's file and reports existing = false. *)
Definition sched_flag_missed_prefix : list event :=
  [ Acquire 1; Step 1;                     (* B: stat -> absent *)
    Acquire 0; Step 0; Step 0; Step 0 ].   (* A: stat, open (creates), flock -> holder *)
Definition sched_flag_missed_suffix : list event :=
  [ Step 1; Step 1 ].                      (* B: open A's inode, flock -> holder, existing=FALSE *)

Theorem flag_refuted :
  (* spurious: existing = true although the previous session closed cleanly *)
  (exists evs p,
     let s := exec evs init in
     forallb (fun e => negb (is_die e)) evs = true
     /\ (forall q, q <> p -> ppc (procs s q) = Idle)
     /\ ppc (procs s p) = Holder /\ pres (procs s p) = Succeeded true)
  /\
  (* missed: existing = false although the previous holder of this very inode died *)
  (exists evs1 evs2 q p,
     let s1 := exec evs1 init in
     let s2 := exec (Die q :: evs2) s1 in
     ppc (procs s1 q) = Holder
     /\ ppc (procs s2 p) = Holder /\ pfd (procs s2 p) = pfd (procs s1 q)
     /\ pres (procs s2 p) = Succeeded false).
Proof.
  split.
  - exists sched_flag_spurious, 1. cbv zeta.
    split; [vm_compute; reflexivity|]. split.
    { intros q Hq. destruct q as [|[|q]]; try congruence; vm_compute; reflexivity. }
    split; vm_compute; reflexivity.
  - exists sched_flag_missed_prefix, sched_flag_missed_suffix, 0, 1.
    vm_compute. repeat split; reflexivity.
Qed.

End Pinned.

(* ------------------------------------------------------------------ *)
(** * Part 6: non-vacuity examples for the current protocol *)

(* One process acquires and releases; another then acquires: existing = false. *)
Example ex_clean_reopen :
  let s := exec [ Acquire 0; Step 0; Step 0; Step 0; Step 0;      (* create flock verify mark *)
                  Release 0; Step 0; Step 0;                      (* unlink close *)
                  Acquire 1; Step 1; Step 1; Step 1; Step 1 ] init in
  obs s 0 = (Idle, 0, Succeeded false) /\ obs s 1 = (Holder, 1, Succeeded false)
  /\ path s = Some 1.
Proof. vm_compute. repeat split; reflexivity. Qed.

(* A holder dies; the next acquirer gets existing = true. *)
Example ex_unclean_reopen :
  let s := exec [ Acquire 0; Step 0; Step 0; Step 0; Step 0;
                  Die 0;
                  Acquire 1; Step 1; Step 1; Step 1; Step 1; Step 1 ] init in  (* EEXIST open flock verify mark *)
  obs s 0 = (Idle, 0, NoResult) /\ obs s 1 = (Holder, 0, Succeeded true)
  /\ path s = Some 0.
Proof. vm_compute. repeat split; reflexivity. Qed.

(* A process dies between verify and mark: it never returned success, and the
   next acquirer sees a leftover (existing) file. *)
Example ex_die_before_mark :
  let s := exec [ Acquire 0; Step 0; Step 0; Step 0; Die 0;
                  Acquire 1; Step 1; Step 1; Step 1; Step 1; Step 1 ] init in
  obs s 1 = (Holder, 0, Succeeded true) /\ owners s 0 = 1.
Proof. vm_compute. repeat split; reflexivity. Qed.

(* A competitor fails with FailedLocked while the first process is holder;
   nothing changed for the holder. *)
Example ex_competitor_fails :
  let s := exec [ Acquire 0; Step 0; Step 0; Step 0; Step 0;
                  Acquire 1; Step 1; Step 1; Step 1 ] init in           (* EEXIST open flock->EWOULDBLOCK *)
  obs s 0 = (Holder, 0, Succeeded false) /\ obs s 1 = (Idle, 0, FailedLocked)
  /\ path s = Some 0 /\ lockedby s 0 = Some 0.
Proof. vm_compute. repeat split; reflexivity. Qed.

(* An opener that opened the file just before the owner unlinked it retries
   (verify fails) and then succeeds on a fresh file with existing = false. *)
Example ex_retry_after_unlink :
  let s := exec [ Acquire 0; Step 0; Step 0; Step 0; Step 0;           (* A holder on inode 0 *)
                  Acquire 1; Step 1; Step 1;                            (* B: EEXIST, open inode 0 *)
                  Release 0; Step 0; Step 0;                            (* A: unlink, close *)
                  Step 1;                                               (* B: flock inode 0 ok *)
                  Step 1;                                               (* B: verify FAILS -> retry *)
                  Step 1; Step 1; Step 1; Step 1 ] init in              (* B: create inode 1, flock, verify, mark *)
  obs s 1 = (Holder, 1, Succeeded false) /\ path s = Some 1.
Proof. vm_compute. repeat split; reflexivity. Qed.

Print Assumptions C13_mutual_exclusion.
Print Assumptions C13_mutual_exclusion_strong.
Print Assumptions C13_holder_owns_path.
Print Assumptions C13_holder_result.
Print Assumptions C13_fresh_means_never_owned.
Print Assumptions C13_fresh_only_if_created.
Print Assumptions C13_unclean_detected.
Print Assumptions C13_dead_holder_detected.
Print Assumptions C13_leftover_detected.
Print Assumptions C13_flag_race_refuted.
Print Assumptions C13_flag_exact_sequential.
Print Assumptions C13_loser_changes_nothing.
Print Assumptions C13_competitor_changes_nothing.
Print Assumptions C13_failed_means_locked.
Print Assumptions NoMark.C13_unclean_race_residual.
Print Assumptions Pinned.two_holders_refuted.
Print Assumptions Pinned.flag_refuted.
