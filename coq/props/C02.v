(* C02 -- Clean restart preserves exactly the closed contents (flat-index instantiation; the bucket
   chains are carried over by DBSim.v, the file implementations by C17). *)
From Pogreb Require Import Base Flat Spec DB DBInv DBMeta DBLemmas DBProofsRecovery.

(* Close writes a consistent checkpoint and releases the lock file with its LAST call *)
Theorem C02_close_checkpoint : forall (P : params) (s : st) (m : mem),
  Inv P s -> s_mem s = Some m ->
  let '(s', o) := db_close flat_ops s in
  o = OOk /\ s_mem s' = None /\ DiskOK (s_disk s') /\ olog (s_disk s') = olog (s_disk s) /\
  d_lock (s_disk s') = false /\ d_index (s_disk s') = Some (m_idx m) /\ d_overflow (s_disk s') = true /\
  d_imeta (s_disk s') = GOk (m_idx m) /\ d_dbmeta (s_disk s') = GOk (m_seed m) /\
  (forall g : mseg, In g (m_segs m) ->
     exists f : dseg, In f (d_segs (s_disk s')) /\ f_id f = g_id g /\ f_seq f = g_seq g /\ f_meta f = GOk (g_meta g)) /\
  (exists es : list fsev, s_trace s' = s_trace s ++ es ++ [ERemove FLock] /\ ~ In (ERemove FLock) es).
Proof. exact close_ok. Qed.
Print Assumptions C02_close_checkpoint.

(* for every history (every reachable state satisfies Inv): Close then Open takes the no-recovery
   path and yields the same contents, the same index, the same segments with the same metadata *)
Theorem C02_clean_restart : forall (P : params) (seed' : N) (s : st) (m : mem),
  params_ok P -> Inv P s -> s_mem s = Some m -> MetaOK s ->
  let '(s1, _) := db_close flat_ops s in
  let '(s2, o0) := db_open flat_ops P seed' (clear_trace s1) in
  o0 = OOpened false /\ Inv P s2 /\
  (forall k : key, sget (abs (s_disk s2)) k = sget (abs (s_disk s)) k) /\
  (exists m2 : mem, s_mem s2 = Some m2 /\ m_idx m2 = m_idx m /\
     (forall g : mseg, In g (m_segs m) -> In g (m_segs m2)) /\
     m_seed m2 = (if ix_count flat_ops (m_idx m) =? 0 then seed' else m_seed m)) /\
  MetaOK s2.
Proof. exact close_reopen_ok. Qed.
Print Assumptions C02_clean_restart.

(* an Open followed by Close with no writes changes nothing: same log, index, metadata *)
Theorem C02_open_close_changes_nothing : forall (P : params) (seed' : N) (s : st) (m : mem),
  params_ok P -> Inv P s -> s_mem s = Some m ->
  let '(s1, _) := db_close flat_ops s in
  let '(s2, _) := db_open flat_ops P seed' (clear_trace s1) in
  let '(s3, o3) := db_close flat_ops s2 in
  o3 = OOk /\ DiskOK (s_disk s3) /\ d_lock (s_disk s3) = false /\
  olog (s_disk s3) = olog (s_disk s1) /\ d_index (s_disk s3) = d_index (s_disk s1) /\
  d_imeta (s_disk s3) = d_imeta (s_disk s1) /\
  (forall f1 : dseg, In f1 (d_segs (s_disk s1)) ->
     exists f3 : dseg, In f3 (d_segs (s_disk s3)) /\ f_id f3 = f_id f1 /\ f_seq f3 = f_seq f1 /\ f_meta f3 = f_meta f1).
Proof. exact reopen_close_same_log. Qed.
Print Assumptions C02_open_close_changes_nothing.

(* sensitivity: the pinned open ignored the side file of an empty segment; a segment sealed while
   empty became writable again and a later recovery lost an acknowledged update (defect D12) *)
Theorem C02_pinned_refuted :
  ~ Inv rf_P rf_s4 /\                                            (* after Close + pinned clean Open *)
  db_get flat_ops rf_P rf_key rf_s5 = OVal (Some rf_new) /\      (* the update is acknowledged and readable *)
  db_get flat_ops rf_P rf_key rf_s6 = OVal (Some rf_big) /\      (* after a crash the pinned recovery returns the stale value *)
  db_get flat_ops rf_P rf_key rf_t6 = OVal (Some rf_new).        (* the current open keeps the update *)
Proof.
  destruct sealed_empty_refuted as (_ & _ & H1 & _ & H2 & H3 & _ & H4). repeat split; assumption.
Qed.
Print Assumptions C02_pinned_refuted.

(* ---- sessions on the PHYSICAL index: Open (clean or recovering), Close, kill, and the operations in
   between, in any order: same outputs as the chain-index database, and the index stored on disk by
   Close (bucket files, free list in index.pmt) is related again -- in particular it satisfies the
   physical invariant, so a restart never finds a free-list entry that is also part of a chain *)
From Pogreb Require Import DBSim DBSimExact Phys PhysProofs PhysDB.
Theorem C02_physical_index_across_sessions :
  forall P (l : list lop) (s1 : @DB.st phys) (s2 : @DB.st Index.pindex),
  gst_rel PR s1 s2 -> loks Index.chain_ops P s2 l ->
  lrun phys_ops P s1 l = lrun Index.chain_ops P s2 l /\
  gst_rel PR (lfinal phys_ops P s1 l) (lfinal Index.chain_ops P s2 l).
Proof. exact phys_sessions. Qed.
Print Assumptions C02_physical_index_across_sessions.

(* ---- the database on the bucket CHAINS (index.go's layout) and on the physical index: Close then Open
   answers exactly as before, without recovery (transferred from the flat instance, DBSimSessions.v);
   and whole session runs (operations, Close, Open, kill between operations) refine the
   specification "plain map + mode {open, closed, crashed}" *)
From Pogreb Require Import DBRun DBSimSessions.
Theorem C02_clean_restart_on_the_real_index :
  forall P seed (sp : @DB.st Index.pindex) (sf : @DB.st Flat.flat) m,
  params_ok P -> st_rel sp sf -> Inv P sf -> s_mem sf = Some m -> MetaOK sf ->
  let '(sp1, o1) := db_close Index.chain_ops sp in
  let '(sp2, o2) := db_open Index.chain_ops P seed (clear_trace sp1) in
  o1 = OOk /\ o2 = OOpened false /\
  answers P sp (abs (s_disk sf)) /\ answers P sp2 (abs (s_disk sf)) /\
  exists sf2, st_rel sp2 sf2 /\ Inv P sf2 /\ MetaOK sf2 /\ s_mem sf2 <> None /\
              meq (abs (s_disk sf2)) (abs (s_disk sf)).
Proof. exact chain_close_reopen_ok. Qed.
Print Assumptions C02_clean_restart_on_the_real_index.

Theorem C02_sessions_on_the_physical_index :
  forall P (l : list lop) (s1 : @DB.st phys) (sp : @DB.st Index.pindex) (sf : @DB.st Flat.flat),
  params_ok P -> gst_rel PR s1 sp -> st_rel sp sf -> J P sf -> lsides P sf l ->
  Forall2 out_equiv (lrun phys_ops P s1 l) (lrun Flat.flat_ops P sf l) /\
  Forall2 out_equiv' (lrun phys_ops P s1 l) (lrun_spec (abs (s_disk sf), mode_of sf) l) /\
  lrun phys_ops P s1 l = lrun Index.chain_ops P sp l /\
  gst_rel PR (lfinal phys_ops P s1 l) (lfinal Index.chain_ops P sp l) /\
  st_rel (lfinal Index.chain_ops P sp l) (lfinal Flat.flat_ops P sf l) /\
  J P (lfinal Flat.flat_ops P sf l).
Proof. exact phys_sessions_flat. Qed.
Print Assumptions C02_sessions_on_the_physical_index.

(* ---- Close then Open on the PHYSICAL index (Phys.v: bucket files addressed by byte offset, overflow allocation,
   free list), PhysCrash.v: three layers, phys -- PR --> chain -- st_rel --> flat ---- *)
From Pogreb Require Import Base BaseLemmas Crc Bytes Record RecordProofs Flat Index Spec DB DBInv
  DBLemmas DBProofsOps DBMeta DBProofsCompact DBProofsRecovery DBProofsCrash DBSim DBRun DBSimExact
  Bucket Phys PhysProofs PhysDB DBSimSessions PhysCrash.
Import ListNotations.
(* Close returns ok, the next Open is clean, answers before and after equal the contents; main.pix / index.pmt hold values satisfying the physical invariant *)
Theorem C02_close_reopen_on_the_physical_index :
  forall P seed (s1 : (@DB.st phys)) (sp : (@DB.st pindex)) (sf : (@DB.st flat)) m,

  params_ok P -> gst_rel PR s1 sp -> st_rel sp sf -> Inv P sf -> s_mem sf = Some m -> MetaOK sf ->
  let s1a := fst (db_close phys_ops s1) in
  let s1b := fst (db_open phys_ops P seed (clear_trace s1a)) in
  snd (db_close phys_ops s1) = OOk /\ snd (db_open phys_ops P seed (clear_trace s1a)) = OOpened false /\
  answers1 P s1 (abs (s_disk sf)) /\ answers1 P s1b (abs (s_disk sf)) /\
  phys_open_ok s1 /\ s_mem s1a = None /\ stored_index (s_disk s1a) (m_idx m) /\ phys_open_ok s1b /\
  exists sp2 sf2, gst_rel PR s1b sp2 /\ st_rel sp2 sf2 /\ Inv P sf2 /\ MetaOK sf2 /\ s_mem sf2 <> None /\
                  meq (abs (s_disk sf2)) (abs (s_disk sf)).
Proof. exact phys_close_reopen_ok_proj. Qed.
Print Assumptions C02_close_reopen_on_the_physical_index.

Definition C02_physical_nonvacuous := PhysCrashEx.ex_close_reopen.
