(* C08 -- Recovery replays exactly the valid record prefix of each segment.
   Statements over ALL byte strings; proofs in RecordProofs.v (reader) and DBProofsRecovery.v
   (what recovery does with the reader's result). *)
From Pogreb Require Import Base BaseLemmas Crc Bytes Record RecordProofs.

(* every well-formed record is read back exactly, whatever follows it *)
Theorem C08_decode_encode : forall r rest, rec_ok r ->
  decode_next (encode_rec r ++ rest) = DOk r (rsize r) rest.
Proof. exact decode_encode. Qed.
Print Assumptions C08_decode_encode.

(* the reader returns the written records followed by exactly what it accepts of the tail: for
   EVERY tail (zeroes, truncated record, flipped bits, garbage, a well-formed record after damage) *)
Theorem C08_valid_prefix_then_tail : forall rs tail, Forall rec_ok rs ->
  parse_tail (concat (map encode_rec rs) ++ tail) =
  let '(rs', n', why) := parse_tail tail in (rs ++ rs', nlen (concat (map encode_rec rs)) + n', why).
Proof. exact parse_valid_prefix. Qed.
Print Assumptions C08_valid_prefix_then_tail.

(* it never fails, never runs out of fuel, never claims more bytes than there are *)
Theorem C08_reader_total : forall bs, snd (parse_tail bs) <> SFuel.
Proof. exact parse_no_fuel. Qed.
Print Assumptions C08_reader_total.
Theorem C08_valid_length_bounded : forall bs, let '(rs, n, why) := parse_tail bs in n <= nlen bs.
Proof. exact parse_len_le. Qed.
Print Assumptions C08_valid_length_bounded.

(* nothing is invented: every accepted record is a CRC-valid framing that occurs in the input *)
Theorem C08_no_invented_data : forall bs rs n why, parse_tail bs = (rs, n, why) ->
  exists chunks, ntake n bs = concat chunks /\ length chunks = length rs /\
                 Forall2 (fun c r => decode_next c = DOk r (nlen c) []) chunks rs.
Proof. exact parse_accepts_only_crc_valid. Qed.
Print Assumptions C08_no_invented_data.

(* a truncated record is discarded *)
Theorem C08_strict_prefix_rejected : forall r c, rec_ok r -> 0 < c -> c < rsize r ->
  parse_tail (ntake c (encode_rec r)) = ([], 0, SShort).
Proof. exact strict_prefix_rejected. Qed.
Print Assumptions C08_strict_prefix_rejected.

(* a change of any single byte -- in particular any single flipped bit -- of the key, the value or
   the checksum invalidates the record, and everything before it is still replayed *)
Theorem C08_single_bit_flip_rejected : forall rs1 r pre b c post rest,
  Forall rec_ok rs1 -> rec_ok r -> encode_rec r = pre ++ b :: post -> 6 <= nlen pre -> byte c -> c <> b ->
  parse_tail (concat (map encode_rec rs1) ++ (pre ++ c :: post) ++ rest) =
  (rs1, nlen (concat (map encode_rec rs1)), SCorrupt).
Proof. exact parse_one_byte_change_rejected. Qed.
Print Assumptions C08_single_bit_flip_rejected.

(* non-vacuity: a concrete record meets the hypotheses *)
Example C08_example : rec_ok (mkput [1; 2] [3]) /\
  parse_tail (encode_rec (mkput [1; 2] [3]) ++ [0; 0; 0]) = ([mkput [1; 2] [3]], 13, SShort).
Proof. split; [repeat split; repeat constructor; vm_compute; reflexivity | vm_compute; reflexivity]. Qed.

(* ---- the Go arithmetic this property rests on, AS TRANSLATED FROM THE CURRENT SOURCES by tools/gotrans
   (gen/Funcs.v, operators in GoSem.v), equals the model's, for all values of the Go types ---- *)
From Coq Require Import ZArith NArith Bool.
From Pogreb Require Import Base Record Index GoSem FuncsRecordCheck.
From Pogreb.gen Require Funcs Consts.
Import Funcs.
Open Scope Z_scope.

Theorem C08_go_next_sizes :
  forall ks w fsize off : N,
  (ks < 2 ^ 16)%N -> (w < 2 ^ 32)%N -> (off <= fsize)%N -> (fsize < 2 ^ 63)%N -> (off < 2 ^ 32)%N ->
  go_next_sizes (Z.of_N ks) (Z.of_N w) (Z.of_N fsize) (Z.of_N off)
  = (if (delbit <=? w)%N then 1 else 0, Z.of_N ks, Z.of_N (w mod delbit), Z.of_N (rec_overhead + ks + w mod delbit),
     (fsize - off <? rec_overhead + ks + w mod delbit)%N).
Proof. exact next_sizes_ok. Qed.
Print Assumptions C08_go_next_sizes.

