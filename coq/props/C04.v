(* C04 -- Repeated crashes: recovery is idempotent, later sessions stay crash-safe. *)
From Pogreb Require Import Base Record Flat Spec DB DBInv DBLemmas DBProofsOps DBProofsRecovery DBProofsCrash.

(* For EVERY finite sequence of epochs -- an epoch being an acknowledged history (Put / Delete /
   Sync), a crash image of the operation in flight, and any number of recoveries that crash
   themselves followed by one that completes -- the state reopened after the last crash satisfies
   the invariant and its contents are: every acknowledged operation applied in order, each in-flight
   operation applied entirely or not at all. *)
Theorem C04_all_epoch_sequences : forall (P : params) (s : st) (es : list (list op * op)) (s' : st),
  params_ok P -> Open P s -> epochs P s es s' ->
  Inv P s' /\ s_mem s' <> None /\ bac_ok (s_disk s') /\ spec_epochs (cont (s_disk s)) es (cont (s_disk s')).
Proof. exact C04_chain. Qed.
Print Assumptions C04_all_epoch_sequences.

(* a crash may strike during recovery itself *)
Theorem C04_crash_inside_recovery : forall (P : params) (seed seed2 : N) (d img : disk),
  params_ok P -> DiskOK d -> bac_ok d -> d_lock d = true ->
  crash_image d (s_trace (fst (db_open flat_ops P seed {| s_mem := None; s_disk := d; s_trace := nil |}))) img ->
  exists s2 : st,
    db_open flat_ops P seed2 {| s_mem := None; s_disk := img; s_trace := nil |} = (s2, OOpened true) /\
    Inv P s2 /\ s_mem s2 <> None /\ bac_ok (s_disk s2) /\
    (forall k : key, sget (abs (s_disk s2)) k = sget (abs d) k).
Proof. exact C04_recover_after_crashed_recovery. Qed.
Print Assumptions C04_crash_inside_recovery.

(* recovering twice from the same image gives the same contents, the same log, and -- with the same
   seed -- the identical index *)
Theorem C04_recovery_idempotent : forall (P : params) (seed seed2 : N) (d : disk),
  params_ok P -> DiskOK d -> bac_ok d -> d_lock d = true ->
  let '(s1, _) := db_open flat_ops P seed {| s_mem := None; s_disk := d; s_trace := [] |} in
  let '(s2, o2) := db_open flat_ops P seed2 {| s_mem := None; s_disk := s_disk s1; s_trace := s_trace s1 |} in
  o2 = OOpened true /\ Inv P s2 /\ s_mem s2 <> None /\
  (forall k : key, sget (abs (s_disk s2)) k = sget (abs (s_disk s1)) k) /\
  (forall k : key, sget (abs (s_disk s2)) k = sget (abs d) k) /\
  olog (s_disk s2) = olog (s_disk s1) /\ d_bac (s_disk s2) = [] /\
  (seed2 = seed -> exists m1 m2 : mem, s_mem s1 = Some m1 /\ s_mem s2 = Some m2 /\ m_idx m2 = m_idx m1).
Proof. exact recover_idempotent. Qed.
Print Assumptions C04_recovery_idempotent.

(* the recovered state has its append positions equal to the file lengths (part of Inv:
   mem_disk_agree) -- the clause the pinned tree violated after discarding a torn tail (defect D2) *)
Theorem C04_sizes_agree_after_recovery : forall (P : params) (seed : N) (d : disk),
  params_ok P -> DiskOK d -> bac_ok d -> d_lock d = true ->
  let '(s', _) := db_open flat_ops P seed {| s_mem := None; s_disk := d; s_trace := [] |} in
  exists m, s_mem s' = Some m /\
    forall g, In g (m_segs m) -> exists f, In f (d_segs (s_disk s')) /\ f_id f = g_id g /\ f_tail f = [] /\ flen f = g_size g.
Proof.
  intros P seed d H1 H2 H3 H4. pose proof (open_recover_ok P seed d H1 H2 H3 H4) as H.
  destruct (db_open flat_ops P seed {| s_mem := None; s_disk := d; s_trace := [] |}) as [s' o].
  destruct H as (_ & HI & Hm & _). unfold Inv in HI. destruct (s_mem s') as [m|] eqn:E; [|congruence].
  exists m. split; [reflexivity|]. destruct HI as (_ & (Hag & _) & _).
  intros g Hg. destruct (Hag g Hg) as (f & Hf & Hid & _ & _ & Ht & Hl). exists f. auto.
Qed.
Print Assumptions C04_sizes_agree_after_recovery.

(* ---- on the bucket CHAINS: a crash inside the recovering Open; the next Open recovers the same
   contents (DBSimSessions.v) *)
From Pogreb Require Import Index DBSim DBSimSessions.
Theorem C04_crash_inside_recovery_on_the_real_index :
  forall P seed seed2 (dp : @DB.disk pindex) (df : @DB.disk flat) imgp,
  params_ok P -> disk_rel dp df -> DiskOK df -> bac_ok df -> d_lock df = true ->
  gcrash_image chain_ops dp (s_trace (fst (db_open chain_ops P seed (closedp dp)))) imgp ->
  exists imgf sp2 sf2,
    disk_rel imgp imgf /\ db_open chain_ops P seed2 (closedp imgp) = (sp2, OOpened true) /\
    st_rel sp2 sf2 /\ Inv P sf2 /\ s_mem sf2 <> None /\ answers P sp2 (abs df).
Proof. exact chain_crash_open_recover. Qed.
Print Assumptions C04_crash_inside_recovery_on_the_real_index.

(* ---- the counters recovery rebuilds (they decide what a later compaction may drop), AS TRANSLATED
   FROM THE CURRENT SOURCES by tools/gotrans (gen/Funcs.v), are the model's (DB.replay_rec) ---- *)
From Coq Require Import ZArith NArith.
From Pogreb Require Import GoSem FuncsLogCheck.
From Pogreb.gen Require Funcs.
Import Funcs.
Theorem C04_go_recover_counters : forall puts dels dbytes rlen : N,
  (puts < 2 ^ 32)%N -> (dels < 2 ^ 32)%N -> (dbytes < 2 ^ 32)%N -> (rlen < 2 ^ 62)%N ->
  go_recover_put (Z.of_N puts) = Z.of_N (u32 (puts + 1)) /\
  go_recover_del (Z.of_N dels) (Z.of_N dbytes) (Z.of_N rlen)
  = (Z.of_N (u32 (dels + 1)), Z.of_N (u32 (dbytes + u32 rlen))).
Proof. exact recover_counters_ok. Qed.
Print Assumptions C04_go_recover_counters.

(* the recovering Open runs alone: the background worker (periodic Sync and compaction) is started only
   after recover() has returned (regenerated call skeleton of Open) *)
From Pogreb Require Import ShapeCheck.
Theorem C04_recovery_runs_alone : open_worker_after_recovery = true.
Proof. exact shape_open_worker_after_recovery. Qed.
Print Assumptions C04_recovery_runs_alone.

(* ---- crash DURING A RECOVERY on the PHYSICAL index (Phys.v: bucket files addressed by byte offset, overflow allocation,
   free list), PhysCrash.v: three layers, phys -- PR --> chain -- st_rel --> flat; the process dies at any
   event boundary or inside a record write of the operation running on the physical-index database ---- *)
From Pogreb Require Import Base BaseLemmas Crc Bytes Record RecordProofs Flat Index Spec DB DBInv
  DBLemmas DBProofsOps DBMeta DBProofsCompact DBProofsRecovery DBProofsCrash DBSim DBRun DBSimExact
  Bucket Phys PhysProofs PhysDB DBSimSessions PhysCrash.
Import ListNotations.
(* the recovering Open itself dies at any point; the next Open recovers the same contents *)
Theorem C04_crash_during_recovery_on_the_physical_index :
  forall P seed seed2 (d1 : (@DB.disk phys)) (dp : (@DB.disk pindex)) (df : (@DB.disk flat)) img1,

  params_ok P -> gdisk_rel PR d1 dp -> disk_rel dp df -> DiskOK df -> bac_ok df -> d_lock df = true ->
  gcrash_image phys_ops d1 (s_trace (fst (db_open phys_ops P seed (closed1 d1)))) img1 ->
  recovers_unchanged P seed2 true img1 (abs df).
Proof. exact phys_crash_open_recover. Qed.
Print Assumptions C04_crash_during_recovery_on_the_physical_index.

(* a recovering Open on any image related to a DiskOK flat image: OOpened true on all three instantiations, invariants, answers *)
Theorem C04_recovery_of_any_related_image_on_the_physical_index :
  forall P seed (img1 : (@DB.disk phys)) (imgp : (@DB.disk pindex)) (imgf : (@DB.disk flat)),

  params_ok P -> gdisk_rel PR img1 imgp -> disk_rel imgp imgf ->
  DiskOK imgf -> bac_ok imgf -> d_lock imgf = true ->
  exists s2 sp2 sf2,
    db_open phys_ops P seed (closed1 img1) = (s2, OOpened true) /\
    db_open chain_ops P seed (closedp imgp) = (sp2, OOpened true) /\
    db_open flat_ops P seed (closed imgf) = (sf2, OOpened true) /\
    gst_rel PR s2 sp2 /\ st_rel sp2 sf2 /\ Inv P sf2 /\ MetaOK sf2 /\ s_mem sf2 <> None /\
    bac_ok (s_disk sf2) /\ meq (abs (s_disk sf2)) (abs imgf) /\
    phys_open_ok s2 /\ answers P sp2 (abs imgf) /\ answers1 P s2 (abs imgf).
Proof. exact phys_recover_image. Qed.
Print Assumptions C04_recovery_of_any_related_image_on_the_physical_index.


(* ---- a PROCESS crash in the middle of a CLEAN Open (PowerLoss3.v): the lock file is there, the next Open
   recovers; contents unchanged, invariants and durability discipline re-established ---- *)
From Pogreb Require Import Base BaseLemmas Crc Bytes Record RecordProofs Flat Spec DB DBInv DBLemmas
  DBProofsOps DBMeta DBProofsRecovery DBProofsCompact DBProofsCrash PowerLoss PowerLoss2 PowerLoss3.
(* Close, then the clean Open is killed after any non-empty prefix of its events, then recovery attempts *)
Theorem C04_crash_during_a_clean_open :
  forall P seed cf s1 s2 p q Kr s1' u,

  params_ok P -> XOpen P cf -> DurS u (fst cf) ->
  db_close flat_ops (clear_trace (fst cf)) = (s1, OOk) ->
  db_open flat_ops P seed (closed (s_disk s1)) = (s2, OOpened false) ->
  s_trace s2 = p ++ q -> p <> [] ->
  rrun P ((fold_left (apply_ev flat_ops)) p (s_disk s1)) Kr s1' ->
  XOpen P (s1', None) /\
  s_disk s1' = hrun (CE (s_trace s1) :: CE p :: Kr) (s_disk (fst cf)) /\
  ceq (cont (s_disk s1')) (cont (s_disk (fst cf))) /\
  (exists u', hdur2 u (CE (s_trace s1) :: CE p :: Kr) = Some u' /\ DurS u' s1') /\
  d_lock ((fold_left (apply_ev flat_ops)) p (s_disk s1)) = true /\
  (forall x, hcrash (s_disk (fst cf)) (CE (s_trace s1) :: CE p :: Kr) x ->
     DiskOK x /\ bac_ok x /\ ceq (cont x) (cont (s_disk (fst cf))) /\ (d_lock x = true \/ x = s_disk s1)).
Proof. exact crash_during_clean_open. Qed.
Print Assumptions C04_crash_during_a_clean_open.

