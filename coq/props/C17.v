(* C17 -- Behaviour does not depend on the FileSystem implementation. *)
From Pogreb Require Import Base FSImpl.

(* For every sequence of the calls the database makes (well formed, and no single call growing the
   file beyond twice the current mapping), memFile, osFile and osMMapFile give the same results as
   one abstract file, and the same final contents. *)
Theorem C17_three_files_one_behaviour : forall imm : N, 0 < imm -> forall (d0 : bytes) (cs : list call),
  calls_ok imm d0 cs = true ->
  run_mem d0 cs = run_os d0 cs /\ run_os d0 cs = run_mmap imm d0 cs /\ run_mmap imm d0 cs = run_abs d0 cs /\
  final_mem d0 cs = final_os d0 cs /\ final_os d0 cs = final_mmap imm d0 cs /\ final_mmap imm d0 cs = final_abs d0 cs.
Proof. exact C17_fs_equivalent. Qed.
Print Assumptions C17_three_files_one_behaviour.

(* the side condition in terms of the calls alone: every call grows the file by at most the initial mapping size *)
Theorem C17_small_growth : forall imm : N, 0 < imm -> forall (d0 : bytes) (cs : list call),
  calls_small imm d0 cs = true ->
  run_mem d0 cs = run_os d0 cs /\ run_os d0 cs = run_mmap imm d0 cs /\
  final_mem d0 cs = final_os d0 cs /\ final_os d0 cs = final_mmap imm d0 cs.
Proof. exact C17_fs_equivalent_small. Qed.
Print Assumptions C17_small_growth.

(* growth past the mapping, truncation, slices at the end never read outside the mapping *)
Theorem C17_mapping_never_overrun : forall imm : N, 0 < imm -> forall (d0 : bytes) (cs : list call),
  calls_ok imm d0 cs = true ->
  ~ In RPanic (snd (run (step_mmap imm) (mmap_open imm d0) cs)) /\
  ~ In RFault (snd (run (step_mmap imm) (mmap_open imm d0) cs)).
Proof. exact C17_mmap_never_panics. Qed.
Print Assumptions C17_mapping_never_overrun.

(* the file wrapper of file.go: appending at the tracked size is appending at the end *)
Theorem C17_wrapper_append : forall (a : afile) (data : bytes), a_open a = true ->
  let (w1, r) := w_append step_abs {| w_f := a; w_size := nlen (a_data a) |} data in
  r = Some (nlen (a_data a)) /\ a_data (w_f w1) = a_data a ++ data /\
  w_size w1 = nlen (a_data (w_f w1)) /\ a_pos (w_f w1) = a_pos a /\ a_open (w_f w1) = true.
Proof. exact file_wrapper_append. Qed.
Print Assumptions C17_wrapper_append.

(* the side condition is necessary: OBSERVATION O1 (mremap doubles only once). One call that more than
   doubles the file leaves the mapping shorter than the file; the database never makes such a call
   (a record is at most 512 MiB + 64 KiB + 10 bytes, the first mapping is 1 GiB). *)
Theorem C17_side_condition_needed : exists (imm : N) (cs : list call),
  0 < imm /\ seq_wf (abs_open []) cs = true /\
  In RPanic (snd (run (step_mmap imm) (mmap_open imm []) cs)) /\
  snd (run step_os (os_open []) cs) = snd (run step_mem (mem_open []) cs) /\
  ~ In RPanic (snd (run step_os (os_open []) cs)) /\ calls_ok imm [] cs = false.
Proof. exact mmap_gap_refuted. Qed.
Print Assumptions C17_side_condition_needed.

(* ---- the Go arithmetic this property rests on, AS TRANSLATED FROM THE CURRENT SOURCES by tools/gotrans
   (gen/Funcs.v, operators in GoSem.v), equals the model's, for all values of the Go types ---- *)
From Coq Require Import ZArith NArith Bool.
From Pogreb Require Import Base Record Index GoSem FuncsFSCheck.
From Pogreb.gen Require Funcs Consts.
Import Funcs.
Open Scope Z_scope.

Theorem C17_go_slice_eof :
  forall e size : N, go_slice_eof (Z.of_N e) (Z.of_N size) = (size <? e)%N.
Proof. exact slice_eof_ok. Qed.
Print Assumptions C17_go_slice_eof.

Theorem C17_go_mmap_write_size :
  forall off n size : N, (off < 2 ^ 62)%N -> (n < 2 ^ 62)%N ->
  go_mmap_write_size (Z.of_N off) (Z.of_N n) (Z.of_N size) = Z.of_N (if (size <? off + n)%N then off + n else size)%N.
Proof. exact mmap_write_size_ok. Qed.
Print Assumptions C17_go_mmap_write_size.

Theorem C17_go_mremap_enough :
  forall msize size : N, go_mremap_enough (Z.of_N msize) (Z.of_N size) = (size <=? msize)%N.
Proof. exact mremap_enough_ok. Qed.
Print Assumptions C17_go_mremap_enough.

Theorem C17_go_mremap_size :
  forall msize size : N, (msize < 2 ^ 62)%N ->
  go_mremap_size (Z.of_N msize) (Z.of_N size)
  = Z.of_N (if (msize =? 0)%N then (if (Consts.initial_mmap_size <? size)%N then size else Consts.initial_mmap_size) else msize * 2)%N.
Proof. exact mremap_size_ok. Qed.
Print Assumptions C17_go_mremap_size.

