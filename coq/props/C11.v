(* C11 -- Iteration is complete and truthful (chain-index instantiation related to an invariant flat state). *)
From Pogreb Require Import Base Flat Index Spec DB DBInv DBSim DBProofsIter.
From Coq Require Import Permutation.

(* visiting the buckets in increasing order visits every slot exactly once *)
Theorem C11_scan_covers_all_slots : forall p : pindex,
  concat (map (px_bucket p) (map N.of_nat (seq 0 (length (px_chains p))))) = all_slots p.
Proof. exact px_iter_all. Qed.
Print Assumptions C11_scan_covers_all_slots.

(* a split moves slots only from the split bucket to the NEW LAST bucket, never backwards *)
Theorem C11_split_moves_forward : forall (p : pindex) (n : N) (s : slot),
  PInv p -> In s (px_bucket p n) ->
  In s (px_bucket (px_dosplit p) n) \/ (n = px_split p /\ In s (px_bucket (px_dosplit p) (nlen (px_chains p)))).
Proof. exact px_split_slot_forward. Qed.
Print Assumptions C11_split_moves_forward.

(* a full scan of a database nobody modifies: each live key exactly once with its current value, then
   done on every further call *)
Theorem C11_quiescent : forall (P : params) (sp sf : st) (fuel : nat),
  st_rel sp sf -> Inv P sf -> s_mem sf <> None -> (length (abs (s_disk sf)) < fuel)%nat ->
  exists (l : list (key * val)) (itf : dbiter),
    scan chain_ops fuel sp dbiter0 = (l, itf) /\ Permutation l (abs (s_disk sf)) /\ NoDup (map fst l) /\
    (forall (k : key) (v : val), In (k, v) l <-> sget (abs (s_disk sf)) k = Some v) /\
    dbiter_step chain_ops sp itf = Some (itf, None) /\
    (forall n : nat, outs chain_ops (length l + n) sp dbiter0 = map Some l ++ repeat None n) /\
    db_items chain_ops sp = OItems l.
Proof. exact C11_quiescent_scan. Qed.
Print Assumptions C11_quiescent.

(* a scan interleaved with ANY writer steps (Put, Delete, compaction pick and micro-steps, Sync) between
   its Next calls (cscan): every pair returned was the key's value in the state of a Next call made
   no later than the call returning it ... *)
Theorem C11_returned_pairs_are_truthful : forall P : params, params_ok P ->
  forall (sp sf : st) (c : cursor) (it : dbiter) (ret : list (key * val)) (h hn : list st) (ws : list wlabel)
         (it' : dbiter) (k : key) (v : val),
  cscan P sp sf c it ret h hn ws ->
  dbiter_step chain_ops sp it = Some (it', Some (k, v)) ->
  exists sf_t : st, In sf_t (hn ++ sf :: nil) /\ sget (abs (s_disk sf_t)) k = Some v.
Proof. exact C11_truthful_at_return. Qed.
Print Assumptions C11_returned_pairs_are_truthful.

(* ... and every key that no Put / Delete of the run names, live when the scan reports done, was returned
   (index splits that move keys during the scan included) *)
Theorem C11_untouched_keys_are_returned : forall P : params, params_ok P ->
  forall (sp sf : st) (c : cursor) (it : dbiter) (ret : list (key * val)) (h hn : list st) (ws : list wlabel)
         (it' : dbiter) (k : key) (v : val),
  cscan P sp sf c it ret h hn ws ->
  dbiter_step chain_ops sp it = Some (it', None) ->
  sget (abs (s_disk sf)) k = Some v ->
  (forall lab : wlabel, In lab ws -> ~ wl_touches lab k) -> In (k, v) ret.
Proof. exact C11_complete_untouched. Qed.
Print Assumptions C11_untouched_keys_are_returned.

(* sensitivity: bounding the scan by the bucket count at creation misses a key moved by a split;
   and "at least once" cannot be "exactly once" under concurrency (a split can move a returned key) *)
Definition C11_frozen_bound_refuted := FrozenEx.frozen_bound_refuted.
Definition C11_duplicates_possible := DupEx.concurrent_duplicate_example.

(* ---- the Go arithmetic this property rests on, AS TRANSLATED FROM THE CURRENT SOURCES by tools/gotrans
   (gen/Funcs.v, operators in GoSem.v), equals the model's, for all values of the Go types ---- *)
From Coq Require Import ZArith NArith Bool.
From Pogreb Require Import Base Record Index GoSem FuncsIndexCheck.
From Pogreb.gen Require Funcs Consts.
Import Funcs.
Open Scope Z_scope.

Theorem C11_go_bucketIndex :
  forall level split h : N, (level < 32)%N -> (split < 2 ^ 32)%N -> (h < 2 ^ 32)%N ->
  go_bucketIndex (Z.of_N level) (Z.of_N split) (Z.of_N h) = Z.of_N (bucket_index level split h).
Proof. exact bucketIndex_ok. Qed.
Print Assumptions C11_go_bucketIndex.

Theorem C11_go_split_advance :
  forall level split : N, (level < 32)%N -> (split < 2 ^ level)%N ->
  go_split_advance (Z.of_N level) (Z.of_N split) = (Z.of_N (fst (advance level split)), Z.of_N (snd (advance level split))).
Proof. exact split_advance_ok. Qed.
Print Assumptions C11_go_split_advance.

Theorem C11_go_iter_more : forall (qlen next nbuckets : N),
  go_iter_more (Z.of_N qlen) (Z.of_N next) (Z.of_N nbuckets) = ((qlen =? 0)%N && (next <? nbuckets)%N).
Proof. exact iter_more_ok. Qed.
Print Assumptions C11_go_iter_more.

(* ---- on the PHYSICAL index (PhysIterBackup.v) ---- *)
From Pogreb Require Import Base BaseLemmas Crc Bytes Record RecordProofs Flat Index Spec DB DBInv
  DBLemmas DBProofsOps DBMeta DBProofsCompact DBProofsRecovery DBProofsCrash DBSim DBRun DBSimExact
  Bucket Phys PhysProofs PhysDB DBSimSessions PhysCrash DBProofsIter DBProofsBackup PhysIterBackup.
Import ListNotations.
(* a scan of a quiescent database over the physical buckets: every live key exactly once with its value, then done for ever *)
Theorem C11_quiescent_scan_on_the_physical_index :
  forall P (s1 : (@DB.st phys)) (sp : (@DB.st pindex)) (sf : (@DB.st flat)) fuel,

  gst_rel PR s1 sp -> st_rel sp sf -> Inv P sf -> s_mem sf <> None ->
  (length (abs (s_disk sf)) < fuel)%nat ->
  exists l itf,
    scan phys_ops fuel s1 dbiter0 = (l, itf) /\
    Permutation l (abs (s_disk sf)) /\ NoDup (map fst l) /\
    (forall k v, In (k, v) l <-> sget (abs (s_disk sf)) k = Some v) /\
    dbiter_step phys_ops s1 itf = Some (itf, None) /\
    (forall n, outs phys_ops (length l + n) s1 dbiter0 = map Some l ++ repeat None n) /\
    db_items phys_ops s1 = OItems l /\
    (* the same calls on the chain database return the same *)
    scan chain_ops fuel sp dbiter0 = (l, itf).
Proof. exact C11_quiescent_scan_phys. Qed.
Print Assumptions C11_quiescent_scan_on_the_physical_index.

(* any interleaving of Next calls with writer steps: the physical-index run returns call by call what the chain-index run returns *)
Theorem C11_scan_interleaved_equals_chain_scan :
  forall P (HP : params_ok P) (l : list iact) (s1 : (@DB.st phys)) (sp : (@DB.st pindex)) (sf : (@DB.st flat)) c it,

  gst_rel PR s1 sp -> ok P sp sf c -> isides P l sp sf c ->
  fst (irun phys_ops P l s1 c it) = fst (irun chain_ops P l sp c it) /\
  ifin_rel (snd (irun phys_ops P l s1 c it)) (snd (irun chain_ops P l sp c it)).
Proof. exact phys_iter_interleaved_flat. Qed.
Print Assumptions C11_scan_interleaved_equals_chain_scan.

(* truthful at return *)
Theorem C11_truthful_at_return_on_the_physical_index :
  forall P (HP : params_ok P) s1 sp sf c it ret h hn ws it' k v,

  pscan P s1 sp sf c it ret h hn ws -> dbiter_step phys_ops s1 it = Some (it', Some (k, v)) ->
  exists sf_t, In sf_t (hn ++ [sf]) /\ sget (abs (s_disk sf_t)) k = Some v.
Proof. exact C11_truthful_at_return_phys. Qed.
Print Assumptions C11_truthful_at_return_on_the_physical_index.

(* keys untouched during the scan are returned *)
Theorem C11_complete_untouched_on_the_physical_index :
  forall P (HP : params_ok P) s1 sp sf c it ret h hn ws it' k v,

  pscan P s1 sp sf c it ret h hn ws -> dbiter_step phys_ops s1 it = Some (it', None) ->
  sget (abs (s_disk sf)) k = Some v -> (forall lab, In lab ws -> ~ wl_touches lab k) ->
  In (k, v) ret.
Proof. exact C11_complete_untouched_phys. Qed.
Print Assumptions C11_complete_untouched_on_the_physical_index.

Definition C11_physical_nonvacuous := PhysIBEx.ex_scan_phys.
