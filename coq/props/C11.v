(* C11 -- Iteration is complete and truthful.  Index-level theorems (Index.v); the scan-level theorems
   are in DBProofsIter.v and appended to this file when built. *)
From Pogreb Require Import Base Flat Index.
From Coq Require Import Permutation.

(* visiting the buckets in increasing order visits every slot exactly once *)
Theorem C11_scan_covers_all_slots : forall p : pindex,
  concat (map (px_bucket p) (map N.of_nat (seq 0 (length (px_chains p))))) = all_slots p.
Proof. exact px_iter_all. Qed.
Print Assumptions C11_scan_covers_all_slots.

(* a split moves slots only from the split bucket to the NEW LAST bucket, never backwards *)
Theorem C11_split_moves_forward : forall (p : pindex) (n : N) (s : slot),
  PInv p -> In s (px_bucket p n) ->
  In s (px_bucket (px_dosplit p) n) \/ (n = px_split p /\ In s (px_bucket (px_dosplit p) (nlen (px_chains p)))).
Proof. exact px_split_slot_forward. Qed.
Print Assumptions C11_split_moves_forward.
