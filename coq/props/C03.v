(* C03 -- Process crash at any instant: acknowledged writes survive, the in-flight write is atomic.
   Crash images (DBProofsCrash.crash_image): every prefix of the file-system calls of the operation
   in flight, and for a segment write every cut of the record (all cuts, not only sector-aligned
   ones).  Flat-index instantiation; any hash function, thresholds, sync mode. *)
From Pogreb Require Import Base Record Flat Spec DB DBInv DBLemmas DBProofsOps DBProofsRecovery DBProofsCrash.

Theorem C03_crash_during_put : forall (P : params) (seed : N) (s s' : st) (k v : list N) (o : out) (img : disk),
  params_ok P -> Inv P s -> (exists m : mem, s_mem s = Some m /\ room m) -> bac_ok (s_disk s) ->
  Forall byte k -> Forall byte v -> nlen k <= max_key_len -> nlen v <= max_val_len ->
  db_put flat_ops P k v (clear_trace s) = (s', o) ->
  crash_image (s_disk s) (s_trace s') img ->
  exists s2 : st,
    db_open flat_ops P seed {| s_mem := None; s_disk := img; s_trace := nil |} = (s2, OOpened true) /\
    Inv P s2 /\ s_mem s2 <> None /\ bac_ok (s_disk s2) /\
    ((forall k' : key, sget (abs (s_disk s2)) k' = sget (abs (s_disk s)) k') \/
     (forall k' : key, sget (abs (s_disk s2)) k' = sget (abs (s_disk s')) k') /\
     (forall k' : key, sget (abs (s_disk s2)) k' = (if key_eqb k' k then Some v else sget (abs (s_disk s)) k'))).
Proof. exact C03_put. Qed.
Print Assumptions C03_crash_during_put.

Theorem C03_crash_during_delete : forall (P : params) (seed : N) (s s' : st) (k : list N) (o : out) (img : disk),
  params_ok P -> Inv P s -> (exists m : mem, s_mem s = Some m /\ room m) -> bac_ok (s_disk s) ->
  Forall byte k -> db_delete flat_ops P k (clear_trace s) = (s', o) ->
  crash_image (s_disk s) (s_trace s') img ->
  exists s2 : st,
    db_open flat_ops P seed {| s_mem := None; s_disk := img; s_trace := nil |} = (s2, OOpened true) /\
    Inv P s2 /\ s_mem s2 <> None /\ bac_ok (s_disk s2) /\
    ((forall k' : key, sget (abs (s_disk s2)) k' = sget (abs (s_disk s)) k') \/
     (forall k' : key, sget (abs (s_disk s2)) k' = sget (abs (s_disk s')) k') /\
     (forall k' : key, sget (abs (s_disk s2)) k' = (if key_eqb k' k then None else sget (abs (s_disk s)) k'))).
Proof. exact C03_delete. Qed.
Print Assumptions C03_crash_during_delete.

Theorem C03_crash_during_sync : forall (P : params) (seed : N) (s s' : st) (o : out) (img : disk),
  params_ok P -> Inv P s -> s_mem s <> None -> bac_ok (s_disk s) ->
  db_sync flat_ops (clear_trace s) = (s', o) -> crash_image (s_disk s) (s_trace s') img ->
  exists s2 : st,
    db_open flat_ops P seed {| s_mem := None; s_disk := img; s_trace := nil |} = (s2, OOpened true) /\
    Inv P s2 /\ s_mem s2 <> None /\ bac_ok (s_disk s2) /\
    (forall k' : key, sget (abs (s_disk s2)) k' = sget (abs (s_disk s)) k').
Proof. exact C03_sync. Qed.
Print Assumptions C03_crash_during_sync.

(* a crash at any point of Close: before the last call the lock file is there and recovery runs;
   after it the directory is cleanly closed; either way the contents are those at Close *)
Theorem C03_crash_during_close : forall (P : params) (seed : N) (s s1 : st) (o : out) (img : disk),
  params_ok P -> Inv P s -> s_mem s <> None -> bac_ok (s_disk s) ->
  db_close flat_ops (clear_trace s) = (s1, o) -> crash_image (s_disk s) (s_trace s1) img ->
  exists (s2 : st) (b : bool),
    db_open flat_ops P seed {| s_mem := None; s_disk := img; s_trace := nil |} = (s2, OOpened b) /\
    Inv P s2 /\ s_mem s2 <> None /\ bac_ok (s_disk s2) /\
    (forall k : key, sget (abs (s_disk s2)) k = sget (abs (s_disk s)) k).
Proof. exact C03_close. Qed.
Print Assumptions C03_crash_during_close.

(* a crash at any point of a recovering Open leaves a directory from which recovery succeeds again *)
Theorem C03_crash_during_open : forall (P : params) (seed : N) (d : disk),
  DiskOK d -> bac_ok d -> d_lock d = true -> forall img : disk,
  crash_image d (s_trace (fst (db_open flat_ops P seed {| s_mem := None; s_disk := d; s_trace := nil |}))) img ->
  DiskOK img /\ bac_ok img /\ d_lock img = true /\ (forall k : key, sget (abs img) k = sget (abs d) k).
Proof. exact crash_open_recover. Qed.
Print Assumptions C03_crash_during_open.

(* reads of the reopened database agree with that state (C01 at this layer) *)
Theorem C03_reads_agree : forall (P : params) (s : st) (k : key),
  Inv P s -> s_mem s <> None ->
  db_get flat_ops P k s = OVal (sget (abs (s_disk s)) k) /\
  db_has flat_ops P k s = OBool (shas (abs (s_disk s)) k) /\
  db_count flat_ops s = ONum (scount (abs (s_disk s))).
Proof. intros P s k H1 H2. repeat split; [apply get_ok | apply has_ok | apply (count_ok P)]; assumption. Qed.
Print Assumptions C03_reads_agree.

(* non-vacuity: a concrete reachable state whose Put has a torn image meeting all hypotheses *)
Definition C03_nonvacuous := crash_put_nonvacuous.

(* ---- the same on the bucket CHAINS (the index as index.go lays it out): for every crash image of a
   Put / Delete / Sync / compaction step / Close of the chain-index database, the next Open succeeds
   and Get / Has / Count / Items answer from the contents before or after the operation
   (DBSimSessions.v: crash images of related runs are related; the recovering Open rebuilds related
   indexes) *)
From Pogreb Require Import Index DBSim DBProofsCompact DBRun DBSimSessions.
Theorem C03_crash_during_put_on_the_real_index :
  forall P seed (sp sp' : @DB.st pindex) (sf : @DB.st flat) k v o imgp,
  params_ok P -> st_rel sp sf -> Inv P sf -> (exists m, s_mem sf = Some m /\ room m) -> bac_ok (s_disk sf) ->
  Forall byte k -> Forall byte v -> nlen k <= max_key_len -> nlen v <= max_val_len ->
  db_put chain_ops P k v (clear_trace sp) = (sp', o) ->
  gcrash_image chain_ops (s_disk sp) (s_trace sp') imgp ->
  let sf' := fst (db_put flat_ops P k v (clear_trace sf)) in
  st_rel sp' sf' /\
  exists imgf sp2 sf2,
    disk_rel imgp imgf /\ before_or_after (s_disk sf) (s_disk sf') imgf /\
    db_open chain_ops P seed (closedp imgp) = (sp2, OOpened true) /\
    st_rel sp2 sf2 /\ Inv P sf2 /\ s_mem sf2 <> None /\
    (answers P sp2 (abs (s_disk sf)) \/ answers P sp2 (sput (abs (s_disk sf)) k v)).
Proof. exact chain_crash_put. Qed.
Print Assumptions C03_crash_during_put_on_the_real_index.

Theorem C03_crash_during_delete_on_the_real_index :
  forall P seed (sp sp' : @DB.st pindex) (sf : @DB.st flat) k o imgp,
  params_ok P -> st_rel sp sf -> Inv P sf -> (exists m, s_mem sf = Some m /\ room m) -> bac_ok (s_disk sf) ->
  Forall byte k ->
  db_delete chain_ops P k (clear_trace sp) = (sp', o) ->
  gcrash_image chain_ops (s_disk sp) (s_trace sp') imgp ->
  let sf' := fst (db_delete flat_ops P k (clear_trace sf)) in
  st_rel sp' sf' /\
  exists imgf sp2 sf2,
    disk_rel imgp imgf /\ before_or_after (s_disk sf) (s_disk sf') imgf /\
    db_open chain_ops P seed (closedp imgp) = (sp2, OOpened true) /\
    st_rel sp2 sf2 /\ Inv P sf2 /\ s_mem sf2 <> None /\
    (answers P sp2 (abs (s_disk sf)) \/ answers P sp2 (sdel (abs (s_disk sf)) k)).
Proof. exact chain_crash_delete. Qed.
Print Assumptions C03_crash_during_delete_on_the_real_index.

Theorem C03_crash_during_compaction_step_on_the_real_index :
  forall P seed (sp sp' : @DB.st pindex) (sf : @DB.st flat) c c' imgp,
  params_ok P -> st_rel sp sf -> Inv P sf -> CInv sf c -> (exists m, s_mem sf = Some m /\ room m) ->
  bac_ok (s_disk sf) ->
  compact_step chain_ops P (clear_trace sp) c = CMore sp' c' ->
  gcrash_image chain_ops (s_disk sp) (s_trace sp') imgp ->
  exists imgf sp2 sf2,
    disk_rel imgp imgf /\ db_open chain_ops P seed (closedp imgp) = (sp2, OOpened true) /\
    st_rel sp2 sf2 /\ Inv P sf2 /\ s_mem sf2 <> None /\ answers P sp2 (abs (s_disk sf)).
Proof. exact chain_crash_compact_step. Qed.
Print Assumptions C03_crash_during_compaction_step_on_the_real_index.

Theorem C03_crash_during_close_on_the_real_index :
  forall P seed (sp sp1 : @DB.st pindex) (sf : @DB.st flat) o imgp,
  params_ok P -> st_rel sp sf -> Inv P sf -> s_mem sf <> None -> bac_ok (s_disk sf) ->
  db_close chain_ops (clear_trace sp) = (sp1, o) ->
  gcrash_image chain_ops (s_disk sp) (s_trace sp1) imgp ->
  exists imgf sp2 sf2 b,
    disk_rel imgp imgf /\ db_open chain_ops P seed (closedp imgp) = (sp2, OOpened b) /\
    st_rel sp2 sf2 /\ Inv P sf2 /\ s_mem sf2 <> None /\ answers P sp2 (abs (s_disk sf)).
Proof. exact chain_crash_close. Qed.
Print Assumptions C03_crash_during_close_on_the_real_index.

(* the recovering Open runs alone: the background worker (periodic Sync and compaction) is started only
   after recover() has returned (regenerated call skeleton of Open) *)
From Pogreb Require Import ShapeCheck.
Theorem C03_recovery_runs_alone : open_worker_after_recovery = true.
Proof. exact shape_open_worker_after_recovery. Qed.
Print Assumptions C03_recovery_runs_alone.

(* ---- the same on the PHYSICAL index (Phys.v: bucket files addressed by byte offset, overflow allocation,
   free list), PhysCrash.v: three layers, phys -- PR --> chain -- st_rel --> flat; the process dies at any
   event boundary or inside a record write of the operation running on the physical-index database ---- *)
From Pogreb Require Import Base BaseLemmas Crc Bytes Record RecordProofs Flat Index Spec DB DBInv
  DBLemmas DBProofsOps DBMeta DBProofsCompact DBProofsRecovery DBProofsCrash DBSim DBRun DBSimExact
  Bucket Phys PhysProofs PhysDB DBSimSessions PhysCrash.
Import ListNotations.
(* Put: the next Open (phys) recovers; Get/Has/Count/Items answer from the map before or after the Put; the recovered index satisfies the physical invariant *)
Theorem C03_crash_during_put_on_the_physical_index :
  forall P seed (s1 s1' : (@DB.st phys)) (sp : (@DB.st pindex)) (sf : (@DB.st flat)) k v o img1,

  params_ok P -> gst_rel PR s1 sp -> st_rel sp sf -> Inv P sf ->
  (exists m, s_mem sf = Some m /\ room m) -> bac_ok (s_disk sf) ->
  Forall byte k -> Forall byte v -> nlen k <= max_key_len -> nlen v <= max_val_len ->
  db_put phys_ops P k v (clear_trace s1) = (s1', o) ->
  gcrash_image phys_ops (s_disk s1) (s_trace s1') img1 ->
  let sp' := fst (db_put chain_ops P k v (clear_trace sp)) in
  let sf' := fst (db_put flat_ops P k v (clear_trace sf)) in
  gst_rel PR s1' sp' /\ st_rel sp' sf' /\
  exists imgp imgf s2 sp2 sf2,
    gdisk_rel PR img1 imgp /\ disk_rel imgp imgf /\ before_or_after (s_disk sf) (s_disk sf') imgf /\
    db_open phys_ops P seed (closed1 img1) = (s2, OOpened true) /\
    db_open chain_ops P seed (closedp imgp) = (sp2, OOpened true) /\
    gst_rel PR s2 sp2 /\ st_rel sp2 sf2 /\ Inv P sf2 /\ s_mem sf2 <> None /\ phys_open_ok s2 /\
    (answers1 P s2 (abs (s_disk sf)) \/ answers1 P s2 (sput (abs (s_disk sf)) k v)).
Proof. exact phys_crash_put. Qed.
Print Assumptions C03_crash_during_put_on_the_physical_index.

(* Delete *)
Theorem C03_crash_during_delete_on_the_physical_index :
  forall P seed (s1 s1' : (@DB.st phys)) (sp : (@DB.st pindex)) (sf : (@DB.st flat)) k o img1,

  params_ok P -> gst_rel PR s1 sp -> st_rel sp sf -> Inv P sf ->
  (exists m, s_mem sf = Some m /\ room m) -> bac_ok (s_disk sf) -> Forall byte k ->
  db_delete phys_ops P k (clear_trace s1) = (s1', o) ->
  gcrash_image phys_ops (s_disk s1) (s_trace s1') img1 ->
  let sp' := fst (db_delete chain_ops P k (clear_trace sp)) in
  let sf' := fst (db_delete flat_ops P k (clear_trace sf)) in
  gst_rel PR s1' sp' /\ st_rel sp' sf' /\
  exists imgp imgf s2 sp2 sf2,
    gdisk_rel PR img1 imgp /\ disk_rel imgp imgf /\ before_or_after (s_disk sf) (s_disk sf') imgf /\
    db_open phys_ops P seed (closed1 img1) = (s2, OOpened true) /\
    db_open chain_ops P seed (closedp imgp) = (sp2, OOpened true) /\
    gst_rel PR s2 sp2 /\ st_rel sp2 sf2 /\ Inv P sf2 /\ s_mem sf2 <> None /\ phys_open_ok s2 /\
    (answers1 P s2 (abs (s_disk sf)) \/ answers1 P s2 (sdel (abs (s_disk sf)) k)).
Proof. exact phys_crash_delete. Qed.
Print Assumptions C03_crash_during_delete_on_the_physical_index.

(* Sync: contents unchanged *)
Theorem C03_crash_during_sync_on_the_physical_index :
  forall P seed (s1 s1' : (@DB.st phys)) (sp : (@DB.st pindex)) (sf : (@DB.st flat)) o img1,

  params_ok P -> gst_rel PR s1 sp -> st_rel sp sf -> Inv P sf -> s_mem sf <> None -> bac_ok (s_disk sf) ->
  db_sync phys_ops (clear_trace s1) = (s1', o) ->
  gcrash_image phys_ops (s_disk s1) (s_trace s1') img1 ->
  recovers_unchanged P seed true img1 (abs (s_disk sf)).
Proof. exact phys_crash_sync. Qed.
Print Assumptions C03_crash_during_sync_on_the_physical_index.

(* a compaction micro-step: contents unchanged *)
Theorem C03_crash_during_compaction_step_on_the_physical_index :
  forall P seed (s1 s1' : (@DB.st phys)) (sp : (@DB.st pindex)) (sf : (@DB.st flat)) c c' img1,

  params_ok P -> gst_rel PR s1 sp -> st_rel sp sf -> Inv P sf -> CInv sf c ->
  (exists m, s_mem sf = Some m /\ room m) -> bac_ok (s_disk sf) ->
  compact_step phys_ops P (clear_trace s1) c = CMore s1' c' ->
  gcrash_image phys_ops (s_disk s1) (s_trace s1') img1 ->
  recovers_unchanged P seed true img1 (abs (s_disk sf)).
Proof. exact phys_crash_compact_step. Qed.
Print Assumptions C03_crash_during_compaction_step_on_the_physical_index.

(* the pick of a compaction *)
Theorem C03_crash_during_compaction_pick_on_the_physical_index :
  forall P seed (s1 s1' : (@DB.st phys)) (sp : (@DB.st pindex)) (sf : (@DB.st flat)) c img1,

  params_ok P -> gst_rel PR s1 sp -> st_rel sp sf -> Inv P sf -> s_mem sf <> None -> bac_ok (s_disk sf) ->
  compact_pick phys_ops P (clear_trace s1) = Some (s1', c) ->
  gcrash_image phys_ops (s_disk s1) (s_trace s1') img1 ->
  recovers_unchanged P seed true img1 (abs (s_disk sf)).
Proof. exact phys_crash_compact_pick. Qed.
Print Assumptions C03_crash_during_compaction_pick_on_the_physical_index.

(* Close: recovery, or a clean Open when Close had finished *)
Theorem C03_crash_during_close_on_the_physical_index :
  forall P seed (s1 s1a : (@DB.st phys)) (sp : (@DB.st pindex)) (sf : (@DB.st flat)) o img1,

  params_ok P -> gst_rel PR s1 sp -> st_rel sp sf -> Inv P sf -> s_mem sf <> None -> bac_ok (s_disk sf) ->
  db_close phys_ops (clear_trace s1) = (s1a, o) ->
  gcrash_image phys_ops (s_disk s1) (s_trace s1a) img1 ->
  exists b, recovers_unchanged P seed b img1 (abs (s_disk sf)).
Proof. exact phys_crash_close. Qed.
Print Assumptions C03_crash_during_close_on_the_physical_index.

(* every crash image (torn ones included) stores only indexes satisfying the physical invariant *)
Theorem C03_crash_images_store_wellformed_physical_indexes :
  forall (s1 s1' : (@DB.st phys)) (sp sp' : (@DB.st pindex)) img1,

  gdisk_rel PR (s_disk s1) (s_disk sp) -> gst_rel PR s1' sp' ->
  gcrash_image phys_ops (s_disk s1) (s_trace s1') img1 -> phys_disk_ok img1.
Proof. exact phys_crash_image_inv. Qed.
Print Assumptions C03_crash_images_store_wellformed_physical_indexes.

Definition C03_physical_nonvacuous_torn_put := PhysCrashEx.ex_torn_put_phys.
Definition C03_physical_nonvacuous_put_without_index_write := PhysCrashEx.ex_put_no_index_write.
