(* C03 -- Process crash at any instant: acknowledged writes survive, the in-flight write is atomic.
   Crash images (DBProofsCrash.crash_image): every prefix of the file-system calls of the operation
   in flight, and for a segment write every cut of the record (all cuts, not only sector-aligned
   ones).  Flat-index instantiation; any hash function, thresholds, sync mode. *)
From Pogreb Require Import Base Record Flat Spec DB DBInv DBLemmas DBProofsOps DBProofsRecovery DBProofsCrash.

Theorem C03_crash_during_put : forall (P : params) (seed : N) (s s' : st) (k v : list N) (o : out) (img : disk),
  params_ok P -> Inv P s -> (exists m : mem, s_mem s = Some m /\ room m) -> bac_ok (s_disk s) ->
  Forall byte k -> Forall byte v -> nlen k <= max_key_len -> nlen v <= max_val_len ->
  db_put flat_ops P k v (clear_trace s) = (s', o) ->
  crash_image (s_disk s) (s_trace s') img ->
  exists s2 : st,
    db_open flat_ops P seed {| s_mem := None; s_disk := img; s_trace := nil |} = (s2, OOpened true) /\
    Inv P s2 /\ s_mem s2 <> None /\ bac_ok (s_disk s2) /\
    ((forall k' : key, sget (abs (s_disk s2)) k' = sget (abs (s_disk s)) k') \/
     (forall k' : key, sget (abs (s_disk s2)) k' = sget (abs (s_disk s')) k') /\
     (forall k' : key, sget (abs (s_disk s2)) k' = (if key_eqb k' k then Some v else sget (abs (s_disk s)) k'))).
Proof. exact C03_put. Qed.
Print Assumptions C03_crash_during_put.

Theorem C03_crash_during_delete : forall (P : params) (seed : N) (s s' : st) (k : list N) (o : out) (img : disk),
  params_ok P -> Inv P s -> (exists m : mem, s_mem s = Some m /\ room m) -> bac_ok (s_disk s) ->
  Forall byte k -> db_delete flat_ops P k (clear_trace s) = (s', o) ->
  crash_image (s_disk s) (s_trace s') img ->
  exists s2 : st,
    db_open flat_ops P seed {| s_mem := None; s_disk := img; s_trace := nil |} = (s2, OOpened true) /\
    Inv P s2 /\ s_mem s2 <> None /\ bac_ok (s_disk s2) /\
    ((forall k' : key, sget (abs (s_disk s2)) k' = sget (abs (s_disk s)) k') \/
     (forall k' : key, sget (abs (s_disk s2)) k' = sget (abs (s_disk s')) k') /\
     (forall k' : key, sget (abs (s_disk s2)) k' = (if key_eqb k' k then None else sget (abs (s_disk s)) k'))).
Proof. exact C03_delete. Qed.
Print Assumptions C03_crash_during_delete.

Theorem C03_crash_during_sync : forall (P : params) (seed : N) (s s' : st) (o : out) (img : disk),
  params_ok P -> Inv P s -> s_mem s <> None -> bac_ok (s_disk s) ->
  db_sync flat_ops (clear_trace s) = (s', o) -> crash_image (s_disk s) (s_trace s') img ->
  exists s2 : st,
    db_open flat_ops P seed {| s_mem := None; s_disk := img; s_trace := nil |} = (s2, OOpened true) /\
    Inv P s2 /\ s_mem s2 <> None /\ bac_ok (s_disk s2) /\
    (forall k' : key, sget (abs (s_disk s2)) k' = sget (abs (s_disk s)) k').
Proof. exact C03_sync. Qed.
Print Assumptions C03_crash_during_sync.

(* a crash at any point of Close: before the last call the lock file is there and recovery runs;
   after it the directory is cleanly closed; either way the contents are those at Close *)
Theorem C03_crash_during_close : forall (P : params) (seed : N) (s s1 : st) (o : out) (img : disk),
  params_ok P -> Inv P s -> s_mem s <> None -> bac_ok (s_disk s) ->
  db_close flat_ops (clear_trace s) = (s1, o) -> crash_image (s_disk s) (s_trace s1) img ->
  exists (s2 : st) (b : bool),
    db_open flat_ops P seed {| s_mem := None; s_disk := img; s_trace := nil |} = (s2, OOpened b) /\
    Inv P s2 /\ s_mem s2 <> None /\ bac_ok (s_disk s2) /\
    (forall k : key, sget (abs (s_disk s2)) k = sget (abs (s_disk s)) k).
Proof. exact C03_close. Qed.
Print Assumptions C03_crash_during_close.

(* a crash at any point of a recovering Open leaves a directory from which recovery succeeds again *)
Theorem C03_crash_during_open : forall (P : params) (seed : N) (d : disk),
  DiskOK d -> bac_ok d -> d_lock d = true -> forall img : disk,
  crash_image d (s_trace (fst (db_open flat_ops P seed {| s_mem := None; s_disk := d; s_trace := nil |}))) img ->
  DiskOK img /\ bac_ok img /\ d_lock img = true /\ (forall k : key, sget (abs img) k = sget (abs d) k).
Proof. exact crash_open_recover. Qed.
Print Assumptions C03_crash_during_open.

(* reads of the reopened database agree with that state (C01 at this layer) *)
Theorem C03_reads_agree : forall (P : params) (s : st) (k : key),
  Inv P s -> s_mem s <> None ->
  db_get flat_ops P k s = OVal (sget (abs (s_disk s)) k) /\
  db_has flat_ops P k s = OBool (shas (abs (s_disk s)) k) /\
  db_count flat_ops s = ONum (scount (abs (s_disk s))).
Proof. intros P s k H1 H2. repeat split; [apply get_ok | apply has_ok | apply (count_ok P)]; assumption. Qed.
Print Assumptions C03_reads_agree.

(* non-vacuity: a concrete reachable state whose Put has a torn image meeting all hypotheses *)
Definition C03_nonvacuous := crash_put_nonvacuous.
