(* C18 -- The on-disk format stays the documented format version 2. *)
From Pogreb Require Import Base BaseLemmas Crc Bytes Record RecordProofs DB Bucket ConstsCheck.

(* records: | key size 2 | type bit + value size 4 | key | value | CRC-32 4 |, little endian *)
Theorem C18_record_roundtrip : forall r rest, rec_ok r -> decode_next (encode_rec r ++ rest) = DOk r (rsize r) rest.
Proof. exact decode_encode. Qed.
Print Assumptions C18_record_roundtrip.

Theorem C18_record_size : forall r, nlen (encode_rec r) = rsize r.
Proof. exact encode_rec_length. Qed.
Print Assumptions C18_record_size.

(* every segment file the model writes is accepted record for record by the reader *)
Theorem C18_written_segments_are_documented_format : forall rs tail, Forall rec_ok rs ->
  parse_file (header_bytes ++ concat (map encode_rec rs) ++ tail) =
  Some (let '(rs', n', why) := parse_tail tail in (rs ++ rs', nlen (concat (map encode_rec rs)) + n', why)).
Proof. exact parse_file_valid. Qed.
Print Assumptions C18_written_segments_are_documented_format.

(* 512-byte header: signature, version 2 *)
Theorem C18_header : forall rest : bytes,
  header_ok (header_bytes ++ rest) = true /\ nlen header_bytes = 512 /\ unle (ntake 4 (ndrop 8 header_bytes)) = 2.
Proof. exact header_roundtrip. Qed.
Print Assumptions C18_header.

(* buckets: 31 slots of hash 4 | segment 2 | key size 2 | value size 4 | offset 4, then next 8, in 512 bytes *)
Theorem C18_bucket_roundtrip : forall (slots : list slot) (next : N),
  (length slots <= 31)%nat -> Forall slot_wf slots -> next < 2 ^ 64 ->
  unmarshal_bucket (marshal_bucket slots next) = (slots ++ repeat empty_slot (31 - length slots), next).
Proof. exact bucket_roundtrip. Qed.
Print Assumptions C18_bucket_roundtrip.

Theorem C18_bucket_size : forall (slots : list slot) (next : N),
  (length slots <= 31)%nat -> nlen (marshal_bucket slots next) = 512.
Proof. exact marshal_bucket_length. Qed.
Print Assumptions C18_bucket_size.

(* sequence-numbered segment names "%05d-%d.psg" *)
Theorem C18_segment_names : forall id seq : N, id < max_u16 -> seq < max_u64 ->
  parse_segment_name (name_str (FSeg id seq)) = Some (id, seq).
Proof. exact segname_roundtrip_full. Qed.
Print Assumptions C18_segment_names.

(* the constants and layouts above are those of the code NOW (regenerated gen/Consts.v) *)
Theorem C18_constants_are_the_codes :
  Consts.header_size = Record.header_size /\ Consts.format_version = Record.format_version /\
  Consts.signature = Record.signature /\ Consts.record_overhead = Record.rec_overhead /\
  Consts.bucket_marshal_slices = [(0, 4); (4, 6); (6, 8); (8, 12); (12, 16); (16, 0); (0, 8)] /\
  Consts.bucket_marshal_widths = [32; 16; 16; 32; 32; 64] /\ Consts.record_encode_widths = [16; 32; 32].
Proof.
  repeat split; try reflexivity.
Qed.
Print Assumptions C18_constants_are_the_codes.

(* ---- the Go arithmetic this property rests on, AS TRANSLATED FROM THE CURRENT SOURCES by tools/gotrans
   (gen/Funcs.v, operators in GoSem.v), equals the model's, for all values of the Go types ---- *)
From Coq Require Import ZArith NArith Bool.
From Pogreb Require Import Base Record Index GoSem FuncsRecordCheck FuncsIndexCheck.
From Pogreb.gen Require Funcs Consts.
Import Funcs.
Open Scope Z_scope.

Theorem C18_go_encodedRecordSize :
  forall n : N, (n + 10 < 2 ^ 32)%N -> go_encodedRecordSize (Z.of_N n) = Z.of_N (rec_overhead + n).
Proof. exact encodedRecordSize_ok. Qed.
Print Assumptions C18_go_encodedRecordSize.

Theorem C18_go_encode_sizes :
  forall r : rec, (nlen (rk r) <= max_key_len)%N -> (nlen (rv r) <= max_val_len)%N ->
  go_encode_sizes (Z.of_N (nlen (rk r))) (Z.of_N (nlen (rv r))) (if rdel r then 1 else 0) = (Z.of_N (rsize r), Z.of_N (vfield r)).
Proof. exact encode_sizes_ok. Qed.
Print Assumptions C18_go_encode_sizes.

Theorem C18_go_bucketOffset :
  forall i : N, (i < 2 ^ 32)%N -> go_bucketOffset (Z.of_N i) = Z.of_N (512 + 512 * i).
Proof. exact bucketOffset_ok. Qed.
Print Assumptions C18_go_bucketOffset.

(* ---- the index files as byte strings (Phys.v): main.pix / overflow.pix are the 512-byte header
   followed by 512-byte buckets, and the block at a bucket's offset unmarshals to that bucket *)
From Pogreb Require Import Phys PhysProofs.
Theorem C18_index_file_lengths : forall p, PhysInv p ->
  nlen (ph_main_bytes p) = (512 * (1 + nlen (ph_main p)))%N /\
  nlen (ph_over_bytes p) = (512 * (1 + nlen (ph_over p)))%N.
Proof. exact ph_bytes_lengths. Qed.
Print Assumptions C18_index_file_lengths.

Theorem C18_main_bucket_round_trip : forall p i b, phys_wf p -> pb_read (ph_main p) (bucket_off i) = Some b ->
  unmarshal_bucket (ntake 512 (ndrop (bucket_off i) (ph_main_bytes p))) = (pb_slots b, pb_next b).
Proof. exact ph_main_bytes_decode. Qed.
Print Assumptions C18_main_bucket_round_trip.

Theorem C18_overflow_bucket_round_trip : forall p off b, phys_wf p -> pb_read (ph_over p) off = Some b ->
  unmarshal_bucket (ntake 512 (ndrop off (ph_over_bytes p))) = (pb_slots b, pb_next b).
Proof. exact ph_over_bytes_decode. Qed.
Print Assumptions C18_overflow_bucket_round_trip.
