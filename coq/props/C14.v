(* C14 -- Returned byte slices belong to the caller.  (PARTIAL by nature: aliasing and unmapping are
   properties of the Go heap and the MMU; the runtime part is exercised by the harness on all three
   file systems under SetPanicOnFault.)  What is decided in Coq: over the regenerated code shape,
   Get, GetAppend and the iterator COPY what they return while the lock is held, and records are
   encoded into a fresh buffer before being written (the index stores numbers only). *)
From Pogreb Require Import Base ShapeCheck.

Theorem C14_results_are_copied_inside_the_critical_section : results_copied = true.
Proof. exact shape_results_copied. Qed.
Print Assumptions C14_results_are_copied_inside_the_critical_section.

Theorem C14_reads_are_single_regions : single_region_ops = true.
Proof. exact shape_single_region. Qed.
Print Assumptions C14_reads_are_single_regions.
