(* C19 -- Recovery cost is bounded by the data on disk, not by damaged length fields. *)
From Pogreb Require Import Base Crc Bytes Record RecordProofs.

(* For EVERY byte string (valid records, then any 6-byte header claiming any sizes, then anything):
   the reader allocates at most as many bytes as are present -- for every amount of fuel, in
   particular the one the reader runs with. *)
Theorem C19_alloc_bounded_by_bytes_present : forall (fuel : nat) (bs : bytes), parse_alloc fuel bs <= nlen bs.
Proof. exact parse_alloc_le. Qed.
Print Assumptions C19_alloc_bounded_by_bytes_present.

Theorem C19_one_call : forall bs : bytes, decode_alloc bs <= nlen bs.
Proof. exact decode_alloc_le. Qed.
Print Assumptions C19_one_call.

(* the instrumented and the plain reader are the same function: an accepted record is charged its length *)
Theorem C19_accepted_record_cost : forall bs r len rest, decode_next bs = DOk r len rest -> decode_alloc bs = len.
Proof. exact decode_alloc_ok. Qed.
Print Assumptions C19_accepted_record_cost.

(* and the tail is discarded as in C08 *)
Theorem C19_reader_stops : forall bs : bytes, snd (parse_tail bs) <> SFuel.
Proof. exact parse_no_fuel. Qed.
Print Assumptions C19_reader_stops.

(* sensitivity: without the size check the allocation follows the claimed sizes: 2^31+65545 bytes for 6 bytes *)
Definition decode_alloc_pinned (bs : bytes) : N :=
  if nlen bs <? 6 then 0 else rec_overhead + unle (ntake 2 bs) + unle (ntake 4 (ndrop 2 bs)) mod delbit.
Theorem C19_pinned_refuted : exists bs, nlen bs = 6 /\ decode_alloc_pinned bs = 2147549192.
Proof. exists [255; 255; 255; 255; 255; 127]. split; vm_compute; reflexivity. Qed.
Print Assumptions C19_pinned_refuted.

(* ---- the Go arithmetic this property rests on, AS TRANSLATED FROM THE CURRENT SOURCES by tools/gotrans
   (gen/Funcs.v, operators in GoSem.v), equals the model's, for all values of the Go types ---- *)
From Coq Require Import ZArith NArith Bool.
From Pogreb Require Import Base Record Index GoSem FuncsRecordCheck.
From Pogreb.gen Require Funcs Consts.
Import Funcs.
Open Scope Z_scope.

Theorem C19_go_next_sizes :
  forall ks w fsize off : N,
  (ks < 2 ^ 16)%N -> (w < 2 ^ 32)%N -> (off <= fsize)%N -> (fsize < 2 ^ 63)%N -> (off < 2 ^ 32)%N ->
  go_next_sizes (Z.of_N ks) (Z.of_N w) (Z.of_N fsize) (Z.of_N off)
  = (if (delbit <=? w)%N then 1 else 0, Z.of_N ks, Z.of_N (w mod delbit), Z.of_N (rec_overhead + ks + w mod delbit),
     (fsize - off <? rec_overhead + ks + w mod delbit)%N).
Proof. exact next_sizes_ok. Qed.
Print Assumptions C19_go_next_sizes.

