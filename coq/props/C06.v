(* C06 -- Synced writes survive power loss through rollover, compaction and recovery.
   First the single-epoch theorem (PowerLoss.v); then, at the end of this file, the theorems over
   histories of any number of epochs separated by process crashes (at any event, torn writes
   included) with recovering Opens that may die themselves, kills, and Close / reopen
   (PowerLoss2.v): the sync point may lie before any number of recoveries (defect D13 was there). *)
From Pogreb Require Import Base Flat Spec DB DBInv DBProofsCrash PowerLoss PowerLoss2 ShapeCheck.

(* a segment is flushed when it becomes full (rollover seals through sealSegment, which syncs);
   compaction flushes the current segment before it removes a source segment *)
Theorem C06_seal_and_remove_flush : seal_syncs = true /\ compact_order_ok = true.
Proof. split; [exact shape_seal_syncs | exact shape_compact_order]. Qed.
Print Assumptions C06_seal_and_remove_flush.

(* Power-loss model (PowerLoss.pl): directory events and Syncs are never lost; a data event of a file
   may be dropped or (for a record write) torn, and then every later data event of that file is
   dropped too; data followed by a Sync of its file is never dropped.
   For every history of operations and compaction steps interleaved in any way, every point of it,
   and every such image: if a sync point (db_sync, or Put/Delete with sync-after-every-write)
   completed earlier, the recovering Open succeeds with the invariant, and the contents are those at
   the sync point followed by a PREFIX of the later operations -- so every key holds its value as of
   the last completed Sync or a value written / a deletion made after it. *)
Theorem C06_synced_writes_survive_power_loss :
  forall (P : params) (seed : N) (cf0 : cfg) (os0 : list xop) (cfs0 : list cfg) (tr0 : list fsev) (cfa : cfg)
         (osync : xop) (cf1 : cfg) (os : list xop) (cfs : list cfg) (tr : list fsev) (cf' : cfg)
         (es1 es2 : list fsev) (L' : fset) (img' : disk),
  params_ok P -> XOpen P cf0 -> xrun P cf0 os0 cfs0 tr0 cfa -> xstep P cfa osync cf1 -> sync_point P osync ->
  xrun P cf1 os cfs tr cf' -> tr = es1 ++ es2 ->
  pl fnone (s_disk (fst cf0)) (tr0 ++ s_trace (fst cf1) ++ es1) L' img' ->
  exists s2 : st,
    db_open flat_ops P seed (closed img') = (s2, OOpened true) /\ Inv P s2 /\ s_mem s2 <> None /\
    (exists j : nat, (j <= length os)%nat /\
       ceq (cont (s_disk s2)) (xspec_hist (firstn j os) (cont (s_disk (fst cf1))))).
Proof. exact C06_synced_writes_survive. Qed.
Print Assumptions C06_synced_writes_survive_power_loss.

(* sensitivity: without the flush when a segment is sealed (defect D4), or without the flush before a
   compacted source is removed (defect D5), an admissible image loses a synced key *)
Definition C06_seal_without_sync_refuted := seal_without_sync_refuted.
Definition C06_remove_before_sync_refuted := remove_before_sync_refuted.
Definition C06_nonvacuous_example := C06_nonvacuous.

(* Histories [mrun] of epochs: MOps os (Put / Delete / Sync / compaction micro-steps) | MCrash o (the
   process dies inside step o, at any event or in the middle of a write; recovery attempts that die
   themselves; then a recovering Open) | MKill | MClose (Close and clean Open).  The power fails after
   any event at which the lock file exists ([hcut]); [plh] = the power-loss model over the chunked
   history; [after c mh c'] = c' is c followed by a prefix of a linearisation of the later operations
   in which each operation that was in flight at a process crash is counted or not (the crash
   contract of C03/C04). *)
Theorem C06_synced_writes_survive_through_recoveries :
  forall P seed cf0 mh0 K0 cfa osync cf1 mh K cf' Kcut L' img',
  params_ok P -> XOpen P cf0 ->
  mrun P cf0 mh0 K0 cfa -> xstep P cfa osync cf1 -> sync_point P osync ->
  mrun P cf1 mh K cf' -> hcut Kcut K -> d_lock (hrun Kcut (s_disk (fst cf1))) = true ->
  plh fnone (s_disk (fst cf0)) (K0 ++ CE (s_trace (fst cf1)) :: Kcut) L' img' ->
  exists s2, db_open flat_ops P seed (closed img') = (s2, OOpened true) /\ Inv P s2 /\ s_mem s2 <> None /\
    after (cont (s_disk (fst cf1))) mh (cont (s_disk s2)).
Proof. exact C06_with_recovery. Qed.
Print Assumptions C06_synced_writes_survive_through_recoveries.

(* the power fails in the middle of a recovering Open that follows a process crash *)
Theorem C06_power_loss_during_a_recovery :
  forall P seed seed' cf0 mh0 K0 cfa osync cf1 mh K cfb o cfx Kc cimg p q L' img',
  params_ok P -> XOpen P cf0 ->
  mrun P cf0 mh0 K0 cfa -> xstep P cfa osync cf1 -> sync_point P osync ->
  mrun P cf1 mh K cfb -> xstep P cfb o cfx -> cutof (s_disk (fst cfb)) (s_trace (fst cfx)) Kc cimg ->
  s_trace (fst (db_open flat_ops P seed' (closed cimg))) = p ++ q ->
  plh fnone (s_disk (fst cf0)) (K0 ++ CE (s_trace (fst cf1)) :: K ++ Kc ++ [CE p]) L' img' ->
  exists s2, db_open flat_ops P seed (closed img') = (s2, OOpened true) /\ Inv P s2 /\ s_mem s2 <> None /\
    after (cont (s_disk (fst cf1))) (mh ++ [MCrash o]) (cont (s_disk s2)).
Proof. exact C06_power_loss_during_recovery. Qed.
Print Assumptions C06_power_loss_during_a_recovery.

Definition C06_with_recovery_example := C06_with_recovery_nonvacuous.

(* ---- ONE statement for ANY instant (PowerLoss3.v): the power fails after any number of events of a history
   of epochs; [instant_dichotomy]: either the lock file exists there (C06_with_recovery applies) or the
   instant lies in the window after a completed Close (C09_reopen_epochs applies); nothing else ---- *)
From Pogreb Require Import Base BaseLemmas Crc Bytes Record RecordProofs Flat Spec DB DBInv DBLemmas
  DBProofsOps DBMeta DBProofsRecovery DBProofsCompact DBProofsCrash PowerLoss PowerLoss2 PowerLoss3.
(* sync point anywhere, any epochs afterwards, power failure at ANY instant, any admissible image: Open succeeds (recovering iff the lock file exists), Inv, contents = sync point + prefix of the later operations; in the window after a Close exactly the closed contents *)
Theorem C06_power_loss_at_any_instant :
  forall P seed cf0 mh0 K0 cfa osync cf1 mh K cf' Kcut L' img',

  params_ok P -> XOpen P cf0 ->
  mrun P cf0 mh0 K0 cfa -> xstep P cfa osync cf1 -> sync_point P osync ->
  mrun P cf1 mh K cf' -> instant Kcut K ->
  plh fnone (s_disk (fst cf0)) (K0 ++ CE (s_trace (fst cf1)) :: Kcut) L' img' ->
  exists s2 b, db_open flat_ops P seed (closed img') = (s2, OOpened b) /\ Inv P s2 /\ s_mem s2 <> None /\
    after (cont (s_disk (fst cf1))) mh (cont (s_disk s2)) /\
    b = d_lock (hrun Kcut (s_disk (fst cf1))) /\ d_lock img' = b /\
    (b = false -> exists s s1, closed_window P cf1 mh K cf' Kcut s s1) /\
    (forall s s1, closed_window P cf1 mh K cf' Kcut s s1 ->
       b = false /\ img' = set_orphans (s_disk s1) (d_orphans img') /\ ceq (cont (s_disk s2)) (cont (s_disk s))).
Proof. exact power_loss_any_instant. Qed.
Print Assumptions C06_power_loss_at_any_instant.

(* the instant given as a number n of file-system events *)
Theorem C06_power_loss_after_any_number_of_events :
  forall P seed cf0 mh0 K0 cfa osync cf1 mh K cf' n L' img',

  params_ok P -> XOpen P cf0 ->
  mrun P cf0 mh0 K0 cfa -> xstep P cfa osync cf1 -> sync_point P osync ->
  mrun P cf1 mh K cf' ->
  plh fnone (s_disk (fst cf0)) (K0 ++ CE (s_trace (fst cf1)) :: hpre n K) L' img' ->
  hflat (hpre n K) = firstn n (hflat K) /\
  exists s2 b, db_open flat_ops P seed (closed img') = (s2, OOpened b) /\ Inv P s2 /\ s_mem s2 <> None /\
    after (cont (s_disk (fst cf1))) mh (cont (s_disk s2)) /\
    b = d_lock (hrun (hpre n K) (s_disk (fst cf1))) /\ d_lock img' = b /\
    (b = false -> exists s s1, closed_window P cf1 mh K cf' (hpre n K) s s1) /\
    (forall s s1, closed_window P cf1 mh K cf' (hpre n K) s s1 ->
       b = false /\ img' = set_orphans (s_disk s1) (d_orphans img') /\ ceq (cont (s_disk s2)) (cont (s_disk s))).
Proof. exact power_loss_after_n_events. Qed.
Print Assumptions C06_power_loss_after_any_number_of_events.

(* the dichotomy *)
Theorem C06_every_instant_is_covered :
  forall P cf1 mh K cf' Kcut,

  params_ok P -> XOpen P cf1 -> mrun P cf1 mh K cf' -> instant Kcut K ->
  (d_lock (hrun Kcut (s_disk (fst cf1))) = true /\ (hcut Kcut K \/ (Kcut = [] /\ K = [] /\ mh = []))) \/
  (d_lock (hrun Kcut (s_disk (fst cf1))) = false /\ hcut Kcut K /\
   exists s s1, closed_window P cf1 mh K cf' Kcut s s1).
Proof. exact instant_dichotomy. Qed.
Print Assumptions C06_every_instant_is_covered.

(* the same for histories that also contain process crashes in the middle of a CLEAN Open (mrun3) *)
Theorem C06_power_loss_at_any_instant_with_crashes_in_clean_opens :
  forall P seed cf0 mh0 K0 cfa osync cf1 mh K cf' Kcut L' img',

  params_ok P -> XOpen P cf0 ->
  mrun3 P cf0 mh0 K0 cfa -> xstep P cfa osync cf1 -> sync_point P osync ->
  mrun3 P cf1 mh K cf' -> instant Kcut K ->
  plh fnone (s_disk (fst cf0)) (K0 ++ CE (s_trace (fst cf1)) :: Kcut) L' img' ->
  exists s2 b, db_open flat_ops P seed (closed img') = (s2, OOpened b) /\ Inv P s2 /\ s_mem s2 <> None /\
    after (cont (s_disk (fst cf1))) mh (cont (s_disk s2)) /\
    b = d_lock (hrun Kcut (s_disk (fst cf1))) /\ d_lock img' = b /\
    (b = false -> exists s s1, closed_window3 P cf1 mh K Kcut s s1) /\
    (forall s s1, closed_window3 P cf1 mh K Kcut s s1 ->
       b = false /\ img' = set_orphans (s_disk s1) (d_orphans img') /\ ceq (cont (s_disk s2)) (cont (s_disk s))).
Proof. exact power_loss_any_instant3. Qed.
Print Assumptions C06_power_loss_at_any_instant_with_crashes_in_clean_opens.

Definition C06_any_instant_nonvacuous := power_loss_any_instant_nonvacuous.

(* ---- POWER LOSS on the chain and PHYSICAL index (PhysPowerLoss.v): the power-loss model restated for any index
   ([gpl], coinciding with [pl] on the flat index); related disks and related traces have related admissible
   images, in both directions, with the same set of files that lost a write ---- *)
From Pogreb Require Import Base BaseLemmas Crc Bytes Record RecordProofs Flat Index Spec DB DBInv
  DBLemmas DBProofsOps DBMeta DBProofsCompact DBProofsRecovery DBSim DBRun DBSimExact
  Bucket Phys PhysProofs PhysDB DBProofsCrash DBSimSessions PhysCrash PowerLoss PowerLoss2 PhysPowerLoss.
Import ListNotations.
(* every admissible power-loss image of the physical-index history has a related image of the chain and of the flat history (same files lost a write), and conversely *)
Theorem C06_power_loss_images_of_the_physical_index_are_related :
  forall (d1 : (@DB.disk phys)) (dp : (@DB.disk pindex)) (df : (@DB.disk flat)) t1 tp tf L,

  gdisk_rel PR d1 dp -> disk_rel dp df -> Forall2 (gev_rel PR) t1 tp -> Forall2 ev_rel tp tf ->
  (forall L' img1, gpl phys_ops L d1 t1 L' img1 ->
     exists imgp imgf, gpl chain_ops L dp tp L' imgp /\ pl L df tf L' imgf /\
                       gdisk_rel PR img1 imgp /\ disk_rel imgp imgf) /\
  (forall L' imgf, pl L df tf L' imgf ->
     exists img1 imgp, gpl phys_ops L d1 t1 L' img1 /\ gpl chain_ops L dp tp L' imgp /\
                       gdisk_rel PR img1 imgp /\ disk_rel imgp imgf).
Proof. exact phys_pl_image. Qed.
Print Assumptions C06_power_loss_images_of_the_physical_index_are_related.

(* history, sync point, further steps, power failure after any number n of their events, any admissible image: db_open on the physical index recovers, the rebuilt index is well-formed, the answers are those of the sync point followed by a prefix of the later operations *)
Theorem C06_synced_writes_survive_on_the_physical_index :
  forall P seed c10 cp0 cff0 os0 cfs0 tr0 cffa osync cff1 os cfs tr cff' n L' img1,

  params_ok P -> XOpen P cff0 -> T3 c10 cp0 cff0 ->
  xrun P cff0 os0 cfs0 tr0 cffa -> xstep P cffa osync cff1 -> sync_point P osync ->
  xrun P cff1 os cfs tr cff' ->
  let c1a := gxrun phys_ops P c10 os0 in
  let c1s := gxstep phys_ops P c1a osync in
  gpl phys_ops fnone (s_disk (fst c10))
      (gxtrace phys_ops P c10 os0 ++ s_trace (fst c1s) ++ firstn n (gxtrace phys_ops P c1s os)) L' img1 ->
  answers1 P (fst c1s) (abs (s_disk (fst cff1))) /\
  exists s2, db_open phys_ops P seed (closed1 img1) = (s2, OOpened true) /\ phys_open_ok s2 /\
    exists j ms, (j <= length os)%nat /\ answers1 P s2 ms /\ NoDup (map fst ms) /\
      (forall k, sget ms k = xspec_hist (firstn j os) (cont (s_disk (fst cff1))) k) /\
      exists imgp imgf sp2 sf2,
        pl fnone (s_disk (fst cff0)) (tr0 ++ s_trace (fst cff1) ++ firstn n tr) L' imgf /\
        gdisk_rel PR img1 imgp /\ disk_rel imgp imgf /\ ms = abs imgf /\
        gst_rel PR s2 sp2 /\ st_rel sp2 sf2 /\ Inv P sf2 /\
        db_open flat_ops P seed (closed imgf) = (sf2, OOpened true).
Proof. exact C06_synced_writes_survive_phys. Qed.
Print Assumptions C06_synced_writes_survive_on_the_physical_index.

Definition C06_physical_nonvacuous := PhysPLEx.C06_phys_nonvacuous.
