(* C06 -- Synced writes survive power loss through rollover, compaction and recovery.
   PARTIAL in one respect: the theorems cover every history of Put / Delete / Sync / compaction pick
   and micro-steps (with rollover, both sync modes) from a state with nothing pending, but not a
   history that contains a recovering Open between the durable starting point and the power
   failure; that part (an earlier recovery) is covered by the harness only (it found defect D13). *)
From Pogreb Require Import Base Flat Spec DB DBInv DBProofsCrash PowerLoss ShapeCheck.

(* a segment is flushed when it becomes full (rollover seals through sealSegment, which syncs);
   compaction flushes the current segment before it removes a source segment *)
Theorem C06_seal_and_remove_flush : seal_syncs = true /\ compact_order_ok = true.
Proof. split; [exact shape_seal_syncs | exact shape_compact_order]. Qed.
Print Assumptions C06_seal_and_remove_flush.

(* Power-loss model (PowerLoss.pl): directory events and Syncs are never lost; a data event of a file
   may be dropped or (for a record write) torn, and then every later data event of that file is
   dropped too; data followed by a Sync of its file is never dropped.
   For every history of operations and compaction steps interleaved in any way, every point of it,
   and every such image: if a sync point (db_sync, or Put/Delete with sync-after-every-write)
   completed earlier, the recovering Open succeeds with the invariant, and the contents are those at
   the sync point followed by a PREFIX of the later operations -- so every key holds its value as of
   the last completed Sync or a value written / a deletion made after it. *)
Theorem C06_synced_writes_survive_power_loss :
  forall (P : params) (seed : N) (cf0 : cfg) (os0 : list xop) (cfs0 : list cfg) (tr0 : list fsev) (cfa : cfg)
         (osync : xop) (cf1 : cfg) (os : list xop) (cfs : list cfg) (tr : list fsev) (cf' : cfg)
         (es1 es2 : list fsev) (L' : fset) (img' : disk),
  params_ok P -> XOpen P cf0 -> xrun P cf0 os0 cfs0 tr0 cfa -> xstep P cfa osync cf1 -> sync_point P osync ->
  xrun P cf1 os cfs tr cf' -> tr = es1 ++ es2 ->
  pl fnone (s_disk (fst cf0)) (tr0 ++ s_trace (fst cf1) ++ es1) L' img' ->
  exists s2 : st,
    db_open flat_ops P seed (closed img') = (s2, OOpened true) /\ Inv P s2 /\ s_mem s2 <> None /\
    (exists j : nat, (j <= length os)%nat /\
       ceq (cont (s_disk s2)) (xspec_hist (firstn j os) (cont (s_disk (fst cf1))))).
Proof. exact C06_synced_writes_survive. Qed.
Print Assumptions C06_synced_writes_survive_power_loss.

(* sensitivity: without the flush when a segment is sealed (defect D4), or without the flush before a
   compacted source is removed (defect D5), an admissible image loses a synced key *)
Definition C06_seal_without_sync_refuted := seal_without_sync_refuted.
Definition C06_remove_before_sync_refuted := remove_before_sync_refuted.
Definition C06_nonvacuous_example := C06_nonvacuous.
