(* C06 -- Synced writes survive power loss through rollover, compaction and recovery.  The durability
   theorems are in PowerLoss.v and appended to this file when built; decided here: where the code
   flushes. *)
From Pogreb Require Import Base ShapeCheck.

(* a segment is flushed when it becomes full (rollover seals through sealSegment, which syncs);
   compaction flushes the current segment before it removes a source segment *)
Theorem C06_seal_and_remove_flush : seal_syncs = true /\ compact_order_ok = true.
Proof. split; [exact shape_seal_syncs | exact shape_compact_order]. Qed.
Print Assumptions C06_seal_and_remove_flush.
