(* C09 -- A cleanly closed database is a durable checkpoint. *)
From Pogreb Require Import Base Flat Spec DB DBInv DBLemmas DBProofsRecovery ShapeCheck.

(* Close flushes every file it writes before it closes it; the gob writer flushes; index files are
   flushed; the lock file is released last (regenerated code shape) *)
Theorem C09_close_flushes_then_unlocks : close_syncs = true /\ close_order_ok = true.
Proof. split; [exact shape_close_syncs | exact shape_close_order]. Qed.
Print Assumptions C09_close_flushes_then_unlocks.

(* in the model: the removal of the lock file is the LAST event of Close, after every write *)
Theorem C09_lock_removed_last : forall (P : params) (s : st) (m : mem), Inv P s -> s_mem s = Some m ->
  exists es : list fsev, s_trace (fst (db_close flat_ops s)) = s_trace s ++ es ++ [ERemove FLock] /\ ~ In (ERemove FLock) es.
Proof.
  intros P s m H1 H2. pose proof (close_ok P s m H1 H2) as H.
  destruct (db_close flat_ops s) as [s' o]. cbn [fst]. destruct H as (_ & _ & _ & _ & _ & _ & _ & _ & _ & _ & H). exact H.
Qed.
Print Assumptions C09_lock_removed_last.
