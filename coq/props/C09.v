(* C09 -- A cleanly closed database is a durable checkpoint. *)
From Pogreb Require Import Base Flat Spec DB DBInv DBLemmas DBProofsRecovery DBProofsCrash PowerLoss ShapeCheck.

(* Close flushes every file it writes before it closes it; the gob writer flushes; index files are
   flushed; the lock file is released last (regenerated code shape) *)
Theorem C09_close_flushes_then_unlocks : close_syncs = true /\ close_order_ok = true.
Proof. split; [exact shape_close_syncs | exact shape_close_order]. Qed.
Print Assumptions C09_close_flushes_then_unlocks.

(* in the model: the removal of the lock file is the LAST event of Close, after every write *)
Theorem C09_lock_removed_last : forall (P : params) (s : st) (m : mem), Inv P s -> s_mem s = Some m ->
  exists es : list fsev, s_trace (fst (db_close flat_ops s)) = s_trace s ++ es ++ [ERemove FLock] /\ ~ In (ERemove FLock) es.
Proof.
  intros P s m H1 H2. pose proof (close_ok P s m H1 H2) as H.
  destruct (db_close flat_ops s) as [s' o]. cbn [fst]. destruct H as (_ & _ & _ & _ & _ & _ & _ & _ & _ & _ & H). exact H.
Qed.
Print Assumptions C09_lock_removed_last.

(* after a completed Close every admissible power-loss image of the whole history IS the closed
   directory (all files were flushed before the lock file was removed) ... *)
Theorem C09_closed_directory_is_durable :
  forall (P : params) (cf0 : cfg) (os : list xop) (cfs : list cfg) (tr : list fsev) (s : st) (c : option cursor)
         (m : mem) (s1 : st) (o : out) (L' : fset) (img' : disk),
  params_ok P -> XOpen P cf0 -> xrun P cf0 os cfs tr (s, c) -> s_mem s = Some m ->
  db_close flat_ops (clear_trace s) = (s1, o) ->
  pl fnone (s_disk (fst cf0)) (tr ++ s_trace s1) L' img' ->
  img' = set_orphans (s_disk s1) (d_orphans img') /\ d_segs img' = d_segs (s_disk s1) /\
  d_index img' = d_index (s_disk s1) /\ d_overflow img' = d_overflow (s_disk s1) /\
  d_imeta img' = d_imeta (s_disk s1) /\ d_dbmeta img' = d_dbmeta (s_disk s1) /\
  d_lock img' = false /\ d_bac img' = d_bac (s_disk s1).
Proof. exact C09_closed_is_durable. Qed.
Print Assumptions C09_closed_directory_is_durable.

(* ... so the next Open succeeds without recovery and yields exactly the closed contents ... *)
Theorem C09_next_open : forall (P : params) (seed' : N) (cf0 : cfg) (os : list xop) (cfs : list cfg) (tr : list fsev)
         (s : st) (c : option cursor) (m : mem) (s1 : st) (o : out) (L' : fset) (img' : disk),
  params_ok P -> XOpen P cf0 -> xrun P cf0 os cfs tr (s, c) -> s_mem s = Some m ->
  db_close flat_ops (clear_trace s) = (s1, o) ->
  pl fnone (s_disk (fst cf0)) (tr ++ s_trace s1) L' img' ->
  exists s2 : st,
    db_open flat_ops P seed' (closed img') = (s2, OOpened false) /\ Inv P s2 /\
    ceq (cont (s_disk s2)) (cont (s_disk s)) /\
    (exists m2 : mem, s_mem s2 = Some m2 /\ m_idx m2 = m_idx m /\ (forall g : mseg, In g (m_segs m) -> In g (m_segs m2))).
Proof. exact C09_reopen. Qed.
Print Assumptions C09_next_open.

(* ... and a power failure DURING that next Open leaves a directory from which a further Open (with or
   without recovery) yields the closed contents *)
Theorem C09_power_failure_during_next_open :
  forall (P : params) (seed' seed'' : N) (cf0 : cfg) (os : list xop) (cfs : list cfg) (tr : list fsev) (s : st)
         (c : option cursor) (m : mem) (s1 : st) (o : out) (L' : fset) (img' : disk) (es1 es2 : list fsev)
         (L'' : fset) (img'' : disk),
  params_ok P -> XOpen P cf0 -> xrun P cf0 os cfs tr (s, c) -> s_mem s = Some m ->
  db_close flat_ops (clear_trace s) = (s1, o) ->
  pl fnone (s_disk (fst cf0)) (tr ++ s_trace s1) L' img' ->
  s_trace (fst (db_open flat_ops P seed' (closed img'))) = es1 ++ es2 ->
  pl fnone img' es1 L'' img'' ->
  exists (s3 : st) (b : bool),
    db_open flat_ops P seed'' (closed img'') = (s3, OOpened b) /\ Inv P s3 /\ s_mem s3 <> None /\
    ceq (cont (s_disk s3)) (cont (s_disk s)).
Proof. exact C09_power_loss_during_reopen. Qed.
Print Assumptions C09_power_failure_during_next_open.

(* ---- PowerLoss2.v: after a history of ANY number of epochs (process crashes, recoveries, Close /
   reopen), a completed Close makes every admissible power-loss image the closed directory: the next
   Open is a clean one (no recovery) with exactly the closed contents *)
From Pogreb Require Import PowerLoss2.
Theorem C09_closed_is_durable_after_any_epochs :
  forall P seed cf0 mh K (s : st) c (m : mem) s1 o L' img',
  params_ok P -> XOpen P cf0 -> mrun P cf0 mh K (s, c) -> s_mem s = Some m ->
  db_close flat_ops (clear_trace s) = (s1, o) ->
  plh fnone (s_disk (fst cf0)) (K ++ [CE (s_trace s1)]) L' img' ->
  img' = set_orphans (s_disk s1) (d_orphans img') /\ d_lock img' = false /\
  exists s2, db_open flat_ops P seed (closed img') = (s2, OOpened false) /\ Inv P s2 /\ s_mem s2 <> None /\
    ceq (cont (s_disk s2)) (cont (s_disk s)).
Proof. exact C09_reopen_epochs. Qed.
Print Assumptions C09_closed_is_durable_after_any_epochs.

(* the power fails DURING Close (after any prefix es1 of its events): the next Open succeeds -- through
   recovery as long as the lock file exists, whatever became of db.pmt, index.pmt, the side files or
   main.pix -- with the contents of the last sync point followed by a prefix of the later operations;
   after the complete Close the Open is clean and the contents are exactly the closed ones *)
Theorem C09_power_loss_in_the_middle_of_close :
  forall P seed cf0 os0 cfs0 tr0 cfa osync cf1 os cfs tr (s : st) c s1 o es1 es2 L' img',
  params_ok P -> XOpen P cf0 ->
  xrun P cf0 os0 cfs0 tr0 cfa -> xstep P cfa osync cf1 -> sync_point P osync ->
  xrun P cf1 os cfs tr (s, c) ->
  db_close flat_ops (clear_trace s) = (s1, o) -> s_trace s1 = es1 ++ es2 ->
  pl fnone (s_disk (fst cf0)) (tr0 ++ s_trace (fst cf1) ++ tr ++ es1) L' img' ->
  exists s2 b, db_open flat_ops P seed (closed img') = (s2, OOpened b) /\ Inv P s2 /\ s_mem s2 <> None /\
    (exists j, (j <= length os)%nat /\
       ceq (cont (s_disk s2)) (xspec_hist (firstn j os) (cont (s_disk (fst cf1))))) /\
    (es2 <> [] -> b = true) /\
    (es2 = [] -> b = false /\ ceq (cont (s_disk s2)) (cont (s_disk s))).
Proof. exact C09_power_loss_during_close. Qed.
Print Assumptions C09_power_loss_in_the_middle_of_close.

(* ---- ONE statement for ANY instant (PowerLoss3.v): the power fails after any number of events of a history
   of epochs; [instant_dichotomy]: either the lock file exists there (C06_with_recovery applies) or the
   instant lies in the window after a completed Close (C09_reopen_epochs applies); nothing else ---- *)
From Pogreb Require Import Base BaseLemmas Crc Bytes Record RecordProofs Flat Spec DB DBInv DBLemmas
  DBProofsOps DBMeta DBProofsRecovery DBProofsCompact DBProofsCrash PowerLoss PowerLoss2 PowerLoss3.
(* histories of epochs: in the window after a completed Close every admissible image is the closed directory and opens cleanly to EXACTLY the closed contents *)
Theorem C09_power_loss_after_close_exact_contents :
  forall P seed cf0 mh0 K0 cfa osync cf1 mh K cf' Kcut s s1 L' img',

  params_ok P -> XOpen P cf0 ->
  mrun P cf0 mh0 K0 cfa -> xstep P cfa osync cf1 -> sync_point P osync ->
  reopen_window P cf1 mh K cf' Kcut s s1 ->
  plh fnone (s_disk (fst cf0)) (K0 ++ CE (s_trace (fst cf1)) :: Kcut) L' img' ->
  exists s3 b, db_open flat_ops P seed (closed img') = (s3, OOpened b) /\ Inv P s3 /\ s_mem s3 <> None /\
    ceq (cont (s_disk s3)) (cont (s_disk s)) /\ b = d_lock (hrun Kcut (s_disk (fst cf1))) /\ d_lock img' = b.
Proof. exact power_loss_reopen_exact. Qed.
Print Assumptions C09_power_loss_after_close_exact_contents.

(* the power fails inside the clean Open that follows the Close *)
Theorem C09_power_loss_during_the_next_open_exact :
  forall P seed cf0 mh K (s : st) c s1 seed' s2' e1 e2 L' img',

  params_ok P -> XOpen P cf0 -> mrun P cf0 mh K (s, c) ->
  db_close flat_ops (clear_trace s) = (s1, OOk) ->
  db_open flat_ops P seed' (closed (s_disk s1)) = (s2', OOpened false) -> s_trace s2' = e1 ++ e2 ->
  plh fnone (s_disk (fst cf0)) (K ++ [CE (s_trace s1); CE e1]) L' img' ->
  exists s3 b, db_open flat_ops P seed (closed img') = (s3, OOpened b) /\ Inv P s3 /\ s_mem s3 <> None /\
    ceq (cont (s_disk s3)) (cont (s_disk s)) /\ b = match e1 with [] => false | _ :: _ => true end.
Proof. exact power_loss_during_reopen_exact. Qed.
Print Assumptions C09_power_loss_during_the_next_open_exact.

(* the power fails in the middle of Close, after a history of epochs *)
Theorem C09_power_loss_during_close_epochs :
  forall P seed cf0 mh0 K0 cfa osync cf1 mh K (s : st) c s1 o es1 es2 L' img',

  params_ok P -> XOpen P cf0 ->
  mrun P cf0 mh0 K0 cfa -> xstep P cfa osync cf1 -> sync_point P osync ->
  mrun P cf1 mh K (s, c) ->
  db_close flat_ops (clear_trace s) = (s1, o) -> s_trace s1 = es1 ++ es2 ->
  plh fnone (s_disk (fst cf0)) (K0 ++ CE (s_trace (fst cf1)) :: K ++ [CE es1]) L' img' ->
  exists s2 b, db_open flat_ops P seed (closed img') = (s2, OOpened b) /\ Inv P s2 /\ s_mem s2 <> None /\
    after (cont (s_disk (fst cf1))) mh (cont (s_disk s2)) /\
    (es2 <> [] -> b = true) /\
    (es2 = [] -> b = false /\ img' = set_orphans (s_disk s1) (d_orphans img') /\ ceq (cont (s_disk s2)) (cont (s_disk s))).
Proof. exact power_loss_during_close. Qed.
Print Assumptions C09_power_loss_during_close_epochs.

Definition C09_window_nonvacuous := power_loss_any_instant_nonvacuous_window.

(* ---- POWER LOSS on the chain and PHYSICAL index (PhysPowerLoss.v): the power-loss model restated for any index
   ([gpl], coinciding with [pl] on the flat index); related disks and related traces have related admissible
   images, in both directions, with the same set of files that lost a write ---- *)
From Pogreb Require Import Base BaseLemmas Crc Bytes Record RecordProofs Flat Index Spec DB DBInv
  DBLemmas DBProofsOps DBMeta DBProofsCompact DBProofsRecovery DBSim DBRun DBSimExact
  Bucket Phys PhysProofs PhysDB DBProofsCrash DBSimSessions PhysCrash PowerLoss PowerLoss2 PhysPowerLoss.
Import ListNotations.
(* after a completed Close of the physical-index database every admissible image IS the closed directory (up to orphans): main.pix / index.pmt hold exactly the index Close wrote, which satisfies the physical invariant *)
Theorem C09_closed_is_durable_on_the_physical_index :
  forall P cf1 cfp cff0 os cfs tr (sf : (@DB.st flat)) c (m : @DB.mem flat) sf1 o L' img1,

  params_ok P -> XOpen P cff0 -> T3 cf1 cfp cff0 ->
  xrun P cff0 os cfs tr (sf, c) -> s_mem sf = Some m ->
  db_close flat_ops (clear_trace sf) = (sf1, o) ->
  let s1 := fst (gxrun phys_ops P cf1 os) in
  let s1a := fst (db_close phys_ops (clear_trace s1)) in
  gpl phys_ops fnone (s_disk (fst cf1)) (gxtrace phys_ops P cf1 os ++ s_trace s1a) L' img1 ->
  snd (db_close phys_ops (clear_trace s1)) = OOk /\ s_mem s1a = None /\
  img1 = set_orphans (s_disk s1a) (d_orphans img1) /\
  d_index img1 = d_index (s_disk s1a) /\ d_imeta img1 = d_imeta (s_disk s1a) /\ d_lock img1 = false /\
  stored_index img1 (m_idx m) /\ phys_disk_ok img1 /\
  exists imgp imgf,
    gpl chain_ops fnone (s_disk (fst cfp))
        (gxtrace chain_ops P cfp os ++ s_trace (fst (db_close chain_ops (clear_trace (fst (gxrun chain_ops P cfp os)))))) L' imgp /\
    pl fnone (s_disk (fst cff0)) (tr ++ s_trace sf1) L' imgf /\
    gdisk_rel PR img1 imgp /\ disk_rel imgp imgf /\ imgf = set_orphans (s_disk sf1) (d_orphans imgf).
Proof. exact C09_closed_is_durable_phys. Qed.
Print Assumptions C09_closed_is_durable_on_the_physical_index.

(* the next Open on any admissible image is a CLEAN open that loads (trusts) the index of the image; answers = the closed contents *)
Theorem C09_reopen_on_the_physical_index :
  forall P seed cf1 cfp cff0 os cfs tr (sf : (@DB.st flat)) c (m : @DB.mem flat) sf1 o L' img1,

  params_ok P -> XOpen P cff0 -> T3 cf1 cfp cff0 ->
  xrun P cff0 os cfs tr (sf, c) -> s_mem sf = Some m ->
  db_close flat_ops (clear_trace sf) = (sf1, o) ->
  let s1 := fst (gxrun phys_ops P cf1 os) in
  let s1a := fst (db_close phys_ops (clear_trace s1)) in
  gpl phys_ops fnone (s_disk (fst cf1)) (gxtrace phys_ops P cf1 os ++ s_trace s1a) L' img1 ->
  answers1 P s1 (abs (s_disk sf)) /\
  exists s2, db_open phys_ops P seed (closed1 img1) = (s2, OOpened false) /\
    phys_open_ok s2 /\ answers1 P s2 (abs (s_disk sf)) /\
    (exists m2, s_mem s2 = Some m2 /\ d_index img1 = Some (m_idx m2) /\ d_index (s_disk s1a) = Some (m_idx m2) /\
                PhysInv (m_idx m2)) /\
    exists sp2 sf2, gst_rel PR s2 sp2 /\ st_rel sp2 sf2 /\ Inv P sf2 /\ s_mem sf2 <> None /\
                    meq (abs (s_disk sf2)) (abs (s_disk sf)).
Proof. exact C09_reopen_phys. Qed.
Print Assumptions C09_reopen_on_the_physical_index.

Definition C09_physical_nonvacuous := PhysPLEx.C09_phys_nonvacuous.
