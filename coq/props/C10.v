(* C10 -- No data race, panic, fault or deadlock under concurrent use, incl. Close.  (PARTIAL by
   nature: what a functional model can carry is the lock discipline; actual memory accesses inside
   the Go runtime and the fs implementations, faults on mappings and goroutine leaks are exercised
   by the harness (stress, race detector, SetPanicOnFault, goroutine dump), not proved.) *)
From Pogreb Require Import Base ShapeCheck Conc.
From Pogreb Require Import gen.Shape.

(* lock discipline => no two conflicting accesses to the shared state are ever enabled together,
   for any number of threads running any of the public methods, all schedules *)
Theorem C10_conflict_free : forall (c0 c : conf) (i j : nat) (ti tj : tok) (ri rj : list tok) (hi hj : hset),
  runs_pogreb c0 -> reachable c0 c -> i <> j ->
  nth_error c i = Some (ti :: ri, hi) -> nth_error c j = Some (tj :: rj, hj) ->
  writer_tok ti = true -> (writer_tok tj || reader_tok tj)%bool = true -> False.
Proof. exact pogreb_race_free. Qed.
Print Assumptions C10_conflict_free.

(* deadlock freedom from the regenerated lock order (ItemIterator.mu < maintenanceMu < mu; TryLock
   never blocks), also under Go's writer preference; every maximal run finishes *)
Theorem C10_deadlock_free : forall c0 c : conf,
  runs_pogreb c0 -> reachable c0 c ->
  ((exists t : thread, In t c /\ fst t <> nil) -> exists (i : nat) (c' : conf), step c i = Some c' /\ step_wp c i = Some c') /\
  ((forall i : nat, step c i = None) -> all_done c) /\
  (exists (sch : list nat) (c' : conf), run c sch = Some c' /\ all_done c').
Proof. exact pogreb_deadlock_free. Qed.
Print Assumptions C10_deadlock_free.

(* the obligations over the code as it is now *)
Theorem C10_lock_structure : all_guarded = true /\ lock_order_ok = true /\ close_order_ok = true.
Proof. split; [exact shape_all_guarded | split; [exact shape_lock_order | exact shape_close_order]]. Qed.
Print Assumptions C10_lock_structure.

(* Close stops the worker and waits for it BEFORE taking the lock, holding nothing *)
Definition C10_close_waits_before_locking := close_waits_before_locking.
