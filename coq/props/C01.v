(* C01 -- Map semantics for every operation sequence, key set and hash layout.
   Part 1 (this file, now): every single operation on every reachable state (Inv) of the
   flat-index instantiation answers from / updates the abstract contents [abs] exactly as a plain
   map; the linear-hashing bucket chains behave like a multiset of slots with lookup by
   (hash, match) for ARBITRARY hash values and an ARBITRARY split policy (Index.v).
   Part 2 (Run.v, DBSim.v, added below when built): runs over all operation sequences, and the
   refinement chain index -> flat index. *)
From Pogreb Require Import Base Record Flat Index Spec DB DBInv DBMeta DBLemmas DBProofsOps DBSim DBRun.
From Coq Require Import Permutation.

Theorem C01_put : forall (P : params) (s : st) (k v : list N),
  params_ok P -> Inv P s -> (exists m : mem, s_mem s = Some m /\ room m) ->
  Forall byte k -> Forall byte v -> nlen k <= max_key_len -> nlen v <= max_val_len ->
  let '(s', o) := db_put flat_ops P k v s in
  o = OOk /\ Inv P s' /\ s_mem s' <> None /\
  (forall k' : key, sget (abs (s_disk s')) k' = (if key_eqb k' k then Some v else sget (abs (s_disk s)) k')).
Proof. exact put_ok. Qed.
Print Assumptions C01_put.

Theorem C01_delete : forall (P : params) (s : st) (k : list N),
  params_ok P -> Inv P s -> (exists m : mem, s_mem s = Some m /\ room m) -> Forall byte k ->
  let '(s', o) := db_delete flat_ops P k s in
  o = OOk /\ Inv P s' /\ s_mem s' <> None /\
  (forall k' : key, sget (abs (s_disk s')) k' = (if key_eqb k' k then None else sget (abs (s_disk s)) k')) /\
  (sget (abs (s_disk s)) k = None -> s_disk s' = s_disk s).
Proof. exact delete_ok. Qed.
Print Assumptions C01_delete.

Theorem C01_get : forall (P : params) (s : st) (k : key),
  Inv P s -> s_mem s <> None -> db_get flat_ops P k s = OVal (sget (abs (s_disk s)) k).
Proof. exact get_ok. Qed.
Print Assumptions C01_get.

Theorem C01_get_append : forall (P : params) (s : st) (k : key) (buf : bytes),
  Inv P s -> s_mem s <> None ->
  db_get_append flat_ops P k buf s = OVal (option_map (fun v : list N => buf ++ v) (sget (abs (s_disk s)) k)).
Proof. exact get_append_ok. Qed.
Print Assumptions C01_get_append.

Theorem C01_has : forall (P : params) (s : st) (k : key),
  Inv P s -> s_mem s <> None -> db_has flat_ops P k s = OBool (shas (abs (s_disk s)) k).
Proof. exact has_ok. Qed.
Print Assumptions C01_has.

Theorem C01_count : forall (P : params) (s : st),
  Inv P s -> s_mem s <> None -> db_count flat_ops s = ONum (scount (abs (s_disk s))).
Proof. exact count_ok. Qed.
Print Assumptions C01_count.

(* a full scan of the quiescent database: each live key exactly once with its current value *)
Theorem C01_items : forall (P : params) (s : st),
  Inv P s -> s_mem s <> None ->
  exists l : list (key * val), db_items flat_ops s = OItems l /\ Permutation l (abs (s_disk s)).
Proof. exact items_ok. Qed.
Print Assumptions C01_items.

Theorem C01_sync : forall (P : params) (s : st),
  Inv P s -> s_mem s <> None ->
  let '(s', o) := db_sync flat_ops s in o = OOk /\ Inv P s' /\ s_disk s' = s_disk s /\ s_mem s' = s_mem s.
Proof. exact sync_ok. Qed.
Print Assumptions C01_sync.

(* ---- the bucket chains, for arbitrary hashes and an arbitrary split policy ---- *)
Theorem C01_chain_get_sound : forall (p : pindex) (h : N) (m : slot -> bool) (s : slot),
  PInv p -> px_get p h m = Some s -> In s (all_slots p) /\ sl_h s = h /\ m s = true.
Proof. exact px_get_some. Qed.
Print Assumptions C01_chain_get_sound.

(* lookup is complete along the chain whatever holes earlier deletes have opened *)
Theorem C01_chain_get_complete : forall (p : pindex) (h : N) (m : slot -> bool),
  PInv p -> px_get p h m = None -> forall s : slot, In s (all_slots p) -> sl_h s = h -> m s = false.
Proof. exact px_get_none. Qed.
Print Assumptions C01_chain_get_complete.

(* put overwrites the existing slot of the key wherever it lives in the chain, else adds one slot;
   this includes the split the put may trigger *)
Theorem C01_chain_put : forall (grow : N -> N -> bool) (p : pindex) (sl : slot) (m : slot -> bool)
    (p' : pindex) (old : option slot),
  PInv p -> px_put grow p sl m = (p', old) ->
  PInv p' /\
  match old with
  | Some o => In o (all_slots p) /\ sl_h o = sl_h sl /\ m o = true /\
      (exists l1 l2 : list slot, Permutation (all_slots p) (l1 ++ o :: l2) /\ Permutation (all_slots p') (l1 ++ sl :: l2))
  | None => (forall s : slot, In s (all_slots p) -> sl_h s = sl_h sl -> m s = false) /\
      Permutation (all_slots p') (sl :: all_slots p)
  end.
Proof. exact px_put_spec. Qed.
Print Assumptions C01_chain_put.

Theorem C01_chain_delete : forall (p : pindex) (h : N) (m : slot -> bool) (p' : pindex) (old : option slot),
  PInv p -> px_del p h m = (p', old) ->
  PInv p' /\
  match old with
  | Some o => sl_h o = h /\ m o = true /\ Permutation (all_slots p) (o :: all_slots p')
  | None => p' = p /\ (forall s : slot, In s (all_slots p) -> sl_h s = h -> m s = false)
  end.
Proof. exact px_del_spec. Qed.
Print Assumptions C01_chain_delete.

(* index growth at any moment: a split keeps every slot, in the chain its hash now addresses *)
Theorem C01_chain_split : forall p : pindex,
  PInv p -> PInv (px_dosplit p) /\ Permutation (all_slots (px_dosplit p)) (all_slots p) /\
  px_nkeys (px_dosplit p) = px_nkeys p.
Proof. exact px_split_spec. Qed.
Print Assumptions C01_chain_split.

Theorem C01_chain_scan_all : forall p : pindex,
  concat (map (px_bucket p) (map N.of_nat (seq 0 (length (px_chains p))))) = all_slots p.
Proof. exact px_iter_all. Qed.
Print Assumptions C01_chain_scan_all.

(* sensitivity: the pinned findInsertionBucket inserted a duplicate instead of overwriting (defect D1) *)
Theorem C01_pinned_refuted : exists p sl m, PInv p /\
  (exists o, In o (all_slots p) /\ sl_h o = sl_h sl /\ m o = true) /\ snd (px_put_pinned grow0 p sl m) = None.
Proof. exact pinned_put_refuted. Qed.
Print Assumptions C01_pinned_refuted.

(* ---- Part 2: all operation sequences, on the REAL bucket-chain index ----
   For every parameter set P (hash function, split policy, segment size, compaction thresholds, sync
   mode all arbitrary), every chain-index state related to an invariant flat state, and every finite
   list of Put / Delete / Get / GetAppend / Has / Count / Items / Sync whose Puts are within the size
   limits: the outputs equal those of a plain map started from the abstract contents (Items up to
   permutation), provided no segment comes within one maximal record of 4 GiB along the run. *)
Theorem C01_every_operation_sequence : forall (P : params) (sp sf : st) (l : list op),
  params_ok P -> st_rel sp sf -> Inv P sf -> Forall op_valid l -> rooms P sf l ->
  Forall2 out_equiv (run (step_chain P) sp l) (run step_spec (abs (s_disk sf)) l).
Proof. exact C01_chain_refines_map. Qed.
Print Assumptions C01_every_operation_sequence.

(* from a freshly created database, against the empty map *)
Theorem C01_from_a_new_database : forall (P : params) (seed : N) (l : list op),
  params_ok P -> Forall op_valid l -> rooms P (flat_init seed) l ->
  Forall2 out_equiv (run (step_chain P) (fst (db_open chain_ops P seed st0)) l) (run step_spec nil l).
Proof. exact C01_chain_from_empty. Qed.
Print Assumptions C01_from_a_new_database.

(* non-vacuity: the hypotheses are met by a state with an overflow chain and a hole (40 colliding keys, one deleted) *)
Definition C01_nonvacuous := SimEx.ex_rel.

(* ... and with Compact anywhere in the operation list: outputs equivalent to the plain map's (Items up
   to permutation, CompactionResults ignored towards the map but EQUAL between the chain and the flat
   run), final states related again with Inv and MetaOK *)
Theorem C01_every_operation_sequence_with_compact : forall (P : params) (sp sf : st) (l : list op'),
  params_ok P -> st_rel sp sf -> Inv P sf -> MetaOK sf -> Forall op_valid' l -> rooms' P sf l ->
  Forall2 out_equiv' (run' (step_chain' P) sp l) (run' step_spec' (abs (s_disk sf)) l) /\
  Forall2 out_equiv (run' (step_chain' P) sp l) (run' (step_flat' P) sf l) /\
  (let sp' := final' (step_chain' P) sp l in
   let sf' := final' (step_flat' P) sf l in
   st_rel sp' sf' /\ Inv P sf' /\ MetaOK sf' /\
   meq (abs (s_disk sf')) (final' step_spec' (abs (s_disk sf)) l)).
Proof. exact C01_chain_refines_map_with_compact. Qed.
Print Assumptions C01_every_operation_sequence_with_compact.
Definition C01_nonvacuous_with_compact := RunEx.ex_run.

(* ---- the Go arithmetic this property rests on, AS TRANSLATED FROM THE CURRENT SOURCES by tools/gotrans
   (gen/Funcs.v, operators in GoSem.v), equals the model's, for all values of the Go types ---- *)
From Coq Require Import ZArith NArith Bool.
From Pogreb Require Import Base Record Index GoSem FuncsIndexCheck FuncsLogCheck.
From Pogreb.gen Require Funcs Consts.
Import Funcs.
Open Scope Z_scope.

Theorem C01_go_bucketIndex :
  forall level split h : N, (level < 32)%N -> (split < 2 ^ 32)%N -> (h < 2 ^ 32)%N ->
  go_bucketIndex (Z.of_N level) (Z.of_N split) (Z.of_N h) = Z.of_N (bucket_index level split h).
Proof. exact bucketIndex_ok. Qed.
Print Assumptions C01_go_bucketIndex.

Theorem C01_go_split_advance :
  forall level split : N, (level < 32)%N -> (split < 2 ^ level)%N ->
  go_split_advance (Z.of_N level) (Z.of_N split) = (Z.of_N (fst (advance level split)), Z.of_N (snd (advance level split))).
Proof. exact split_advance_ok. Qed.
Print Assumptions C01_go_split_advance.

Theorem C01_go_bucketOffset :
  forall i : N, (i < 2 ^ 32)%N -> go_bucketOffset (Z.of_N i) = Z.of_N (512 + 512 * i).
Proof. exact bucketOffset_ok. Qed.
Print Assumptions C01_go_bucketOffset.

Theorem C01_go_need_swap :
  forall (full : bool) (size dlen maxseg : N), (size < 2 ^ 62)%N -> (dlen < 2 ^ 62)%N -> (maxseg < 2 ^ 32)%N ->
  go_need_swap full (Z.of_N size) (Z.of_N dlen) (Z.of_N maxseg) = full || (maxseg <? size + dlen)%N.
Proof. exact need_swap_ok. Qed.
Print Assumptions C01_go_need_swap.

Theorem C01_go_trackdel :
  forall dkeys dbytes ks vs : N, (dkeys < 2 ^ 32)%N -> (dbytes < 2 ^ 32)%N -> (ks < 2 ^ 16)%N -> (vs < 2 ^ 32)%N ->
  go_trackdel (Z.of_N dkeys) (Z.of_N dbytes) (Z.of_N ks) (Z.of_N vs)
  = (Z.of_N (u32 (dkeys + 1)), Z.of_N (u32 (dbytes + u32 (rec_overhead + u32 (ks + vs))))).
Proof. exact trackdel_ok. Qed.
Print Assumptions C01_go_trackdel.

Theorem C01_go_del_bytes :
  forall dbytes rlen : N, (dbytes < 2 ^ 32)%N -> (rlen < 2 ^ 32)%N ->
  go_del_bytes (Z.of_N dbytes) (Z.of_N rlen) = Z.of_N (u32 (dbytes + u32 rlen)).
Proof. exact del_bytes_ok. Qed.
Print Assumptions C01_go_del_bytes.

(* ---- the database on the PHYSICAL index (Phys.v: main.pix / overflow.pix as arrays of 512-byte
   buckets addressed by file offset, createOverflowBucket, the free list): every run of Put / Delete /
   Get / GetAppend / Has / Count / Items / Sync / Compact returns the outputs of the chain-index
   database, hence of the plain map, and the physical invariant PhysInv (every pointer valid, no
   overflow bucket shared by two chains or both in a chain and on the free list, none leaked: the
   reachable overflow buckets and the free list partition overflow.pix) holds in every reached
   state (it is part of the relation PR).  The harness compares the BYTES of main.pix and
   overflow.pix and the free list of the implementation with this model at every dump. *)
From Pogreb Require Import DBSimExact Phys PhysProofs PhysDB.
Theorem C01_physical_index_refines_map :
  forall P (s1 : @DB.st phys) (sp : @DB.st pindex) (sf : @DB.st flat) (l : list op'),
  params_ok P -> gst_rel PR s1 sp -> st_rel sp sf -> Inv P sf -> MetaOK sf ->
  Forall op_valid' l -> rooms' P sf l ->
  Forall2 out_equiv' (run' (step' phys_ops P) s1 l) (run' step_spec' (abs (s_disk sf)) l) /\
  run' (step' phys_ops P) s1 l = run' (step_chain' P) sp l /\
  gst_rel PR (final' (step' phys_ops P) s1 l) (final' (step_chain' P) sp l).
Proof. exact C01_phys_refines_map. Qed.
Print Assumptions C01_physical_index_refines_map.

Theorem C01_physical_invariant_in_words : forall p, PhysInv p ->
  exists offs, reachable p = Some offs /\
    NoDup (offs ++ ph_free p) /\
    (forall o, In o (offs ++ ph_free p) <-> exists j, o = bucket_off j /\ (j < nlen (ph_over p))%N) /\
    nlen (ph_over p) = (nlen offs + nlen (ph_free p))%N.
Proof. exact PhysInv_overflow. Qed.
Print Assumptions C01_physical_invariant_in_words.

(* sensitivity: a createOverflowBucket that does not pop the free list makes two chains share a
   bucket and loses a key; a split that forgets freeOverflowBucket leaks *)
Definition C01_shared_bucket_refuted := PhysRun.create_overflow_nopop_refuted.
Definition C01_leak_refuted := PhysRun.split_no_free_refuted.
