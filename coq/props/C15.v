(* C15 -- Compaction reclaims space, nothing leaks, the database stays usable. *)
From Pogreb Require Import Base Record Flat Spec DB DBInv DBMeta DBLemmas DBProofsOps DBProofsRecovery
  DBProofsCompact ConstsCheck.

(* every directory entry belongs to a live segment, the index, metadata or the lock *)
Theorem C15_directory_exact : forall (P : params) (s : st) (m : mem) (n : fname),
  Inv P s -> files_exact s -> s_mem s = Some m -> In n (dir (s_disk s)) ->
  (exists g : mseg, In g (m_segs m) /\ (n = FSeg (g_id g) (g_seq g) \/ n = FSegMeta (g_id g) (g_seq g))) \/
  fixed_name n.
Proof. exact dir_exact. Qed.
Print Assumptions C15_directory_exact.

(* the step that removes a compacted segment removes exactly its file and its side file *)
Theorem C15_compacted_segment_is_gone : forall (P : params) (s : st) (c : cursor) (m : mem) (id seq off : N) (f : dseg),
  Inv P s -> files_exact s -> CInv s c -> s_mem s = Some m -> c_src c = Some (id, seq, off) ->
  find_dseg id (s_disk s) = Some f -> rec_at off (seg_entries f) = None ->
  let s' := remove_segment flat_ops id seq s m in
  compact_step flat_ops P s c =
    CMore s' {| c_todo := c_todo c; c_src := None; c_segs := c_segs c + 1; c_recs := c_recs c; c_bytes := c_bytes c |} /\
  ~ In (FSeg id seq) (dir (s_disk s')) /\ ~ In (FSegMeta id seq) (dir (s_disk s')) /\
  (forall n : fname, In n (dir (s_disk s')) <-> In n (dir (s_disk s)) /\ n <> FSeg id seq /\ n <> FSegMeta id seq) /\
  files_exact s'.
Proof. exact compact_removes_files. Qed.
Print Assumptions C15_compacted_segment_is_gone.

(* nothing leaks across any interleaving of compaction with writers; Compact as a whole *)
Theorem C15_no_leak : forall (P : params) (s : st),
  Inv P s -> MetaOK s -> s_mem s <> None -> compact_room P s ->
  let '(s', o) := db_compact flat_ops P s in
  (exists a b n : N, o = OCompact a b n) /\ Inv P s' /\ s_mem s' <> None /\
  (forall k : key, sget (abs (s_disk s')) k = sget (abs (s_disk s)) k) /\
  MetaOK s' /\ (files_exact s -> files_exact s') /\ d_bac (s_disk s') = d_bac (s_disk s).
Proof. exact db_compact_ok. Qed.
Print Assumptions C15_no_leak.

(* the database remains fully usable afterwards -- the state after Compact satisfies Inv (above), and on
   every Inv state Sync, Put, Delete and Close succeed, also when compaction removed every segment
   (the current segment is then marked removed and the next write creates a new one) *)
Theorem C15_sync_after : forall (P : params) (s : st),
  Inv P s -> s_mem s <> None ->
  let '(s', o) := db_sync flat_ops s in o = OOk /\ Inv P s' /\ s_disk s' = s_disk s /\ s_mem s' = s_mem s.
Proof. exact sync_ok. Qed.
Print Assumptions C15_sync_after.
Theorem C15_close_after : forall (P : params) (s : st) (m : mem), Inv P s -> s_mem s = Some m ->
  snd (db_close flat_ops s) = OOk.
Proof.
  intros P s m H1 H2. pose proof (close_ok P s m H1 H2) as H.
  destruct (db_close flat_ops s) as [s' o]. destruct H as [H _]. exact H.
Qed.
Print Assumptions C15_close_after.

(* the side file is removed with the extension the code really uses (regenerated constant) *)
Theorem C15_side_file_extension : Consts.remove_segment_meta_ext = DB.ext_pmt.
Proof. exact remove_segment_ext. Qed.

(* sensitivity: removing name+".psg" instead of the side file (defect D8) leaves an orphan *)
Definition C15_pinned_refuted := remove_meta_wrong_ext_refuted.

(* ---- the Go arithmetic this property rests on, AS TRANSLATED FROM THE CURRENT SOURCES by tools/gotrans
   (gen/Funcs.v, operators in GoSem.v), equals the model's, for all values of the Go types ---- *)
From Coq Require Import ZArith NArith Bool.
From Pogreb Require Import Base Record Index GoSem FuncsLogCheck.
From Pogreb.gen Require Funcs Consts.
Import Funcs.
Open Scope Z_scope.

Theorem C15_go_pick_too_small :
  forall size minseg : N, (size < 2 ^ 63)%N -> (minseg < 2 ^ 32)%N ->
  go_pick_too_small (Z.of_N size) (Z.of_N minseg) = (u32 size <? minseg)%N.
Proof. exact pick_too_small_ok. Qed.
Print Assumptions C15_go_pick_too_small.

(* ---- "bounded by the live data, not by history" (DBProofsCompactFix.v), for a quiescent Compact.
   [elig] = the two tests of pickForCompaction that look at a segment alone (at least the minimum
   size, fragmented enough); [frag0] = a segment without dead bytes is never fragmented enough.
   After ONE Compact: every file of the directory belongs to a live segment or is one of the five
   fixed files; as many .psg files as open segments and at most 2n+5 files; both files of every
   segment that was eligible are gone; a remaining segment can be eligible only if it is the segment
   that was open, too small to be considered, and grew by promoted records.  After TWO: nothing is
   eligible any more: every segment is below the minimum size or has less than the threshold of
   dead bytes.  (That one Compact is not always a fixpoint is a counterexample of the same file,
   replayable on the code: FixEx.compact_fixpoint_refuted.) *)
From Pogreb Require Import DBRun DBProofsCompactFix.
Theorem C15_after_one_compaction :
  forall P (s : st) (m0 : mem),
  Inv P s -> MetaOK s -> files_exact s -> s_mem s = Some m0 -> compact_room P s -> frag0 P ->
  exists m', s_mem (fst (db_compact flat_ops P s)) = Some m' /\
    files_exact (fst (db_compact flat_ops P s)) /\
    length (filter is_segfile (dir (s_disk (fst (db_compact flat_ops P s))))) = length (m_segs m') /\
    (length (dir (s_disk (fst (db_compact flat_ops P s)))) <= 2 * length (m_segs m') + 5)%nat /\
    (forall n, In n (dir (s_disk (fst (db_compact flat_ops P s)))) ->
       (exists g, In g (m_segs m') /\ (n = FSeg (g_id g) (g_seq g) \/ n = FSegMeta (g_id g) (g_seq g))) \/
       fixed_name n) /\
    (forall g, In g (m_segs m0) -> elig P g = true ->
       ~ In (FSeg (g_id g) (g_seq g)) (dir (s_disk (fst (db_compact flat_ops P s)))) /\
       ~ In (FSegMeta (g_id g) (g_seq g)) (dir (s_disk (fst (db_compact flat_ops P s))))) /\
    (forall g', In g' (m_segs m') ->
       elig P g' = false \/
       exists g, In g (m_segs m0) /\ keepd g g' /\ sm_full (g_meta g) = false /\ elig P g = false /\
                 (g_size g < g_size g')%N).
Proof. exact C15_files_bounded_after_compact. Qed.
Print Assumptions C15_after_one_compaction.

Theorem C15_two_compactions_reach_a_fixpoint :
  forall P (s : st) (m0 : mem),
  Inv P s -> MetaOK s -> files_exact s -> s_mem s = Some m0 -> compact_room P s -> frag0 P ->
  compact_room P (fst (db_compact flat_ops P s)) ->
  exists m2, s_mem (fst (db_compact flat_ops P (fst (db_compact flat_ops P s)))) = Some m2 /\
    pick P m2 = [] /\
    files_exact (fst (db_compact flat_ops P (fst (db_compact flat_ops P s)))) /\
    length (filter is_segfile (dir (s_disk (fst (db_compact flat_ops P (fst (db_compact flat_ops P s)))))))
      = length (m_segs m2) /\
    (length (dir (s_disk (fst (db_compact flat_ops P (fst (db_compact flat_ops P s))))))
      <= 2 * length (m_segs m2) + 5)%nat /\
    (forall g, In g (m_segs m2) -> (p_minseg P <= u32 (g_size g))%N ->
       p_frag P (sm_delbytes (g_meta g)) (g_size g) = false).
Proof. exact C15_files_bounded_after_two_compactions. Qed.
Print Assumptions C15_two_compactions_reach_a_fixpoint.

Definition C15_one_compaction_is_not_a_fixpoint := FixEx.compact_fixpoint_refuted.
