(* C13 -- One open handle per directory; unclean shutdown is always detected.
   The lock-file protocol of fs/os_unix.go + fs/os.go at system-call granularity, any number of
   processes, every schedule of their system calls, process death at any point (Lock.v). *)
From Pogreb Require Import Lock.

(* at most one process is between "acquire returned success" and "release started" *)
Theorem C13_one_holder : forall (evs : list event) (p q : nat),
  let s := exec evs init in ppc (procs s p) = Holder -> ppc (procs s q) = Holder -> p = q.
Proof. exact C13_mutual_exclusion. Qed.
Print Assumptions C13_one_holder.

(* a holder holds the flock on the inode the path currently names *)
Theorem C13_holder_owns : forall (evs : list event) (p : nat),
  let s := exec evs init in ppc (procs s p) = Holder ->
  path s = Some (pfd (procs s p)) /\ lockedby s (pfd (procs s p)) = Some p.
Proof. exact C13_holder_owns_path. Qed.
Print Assumptions C13_holder_owns.

(* unclean shutdown is always detected: whenever some acquisition ever completed on the inode a
   later acquirer ends up holding, that acquirer is told "existing" (so the database is recovered) *)
Theorem C13_unclean_always_detected : forall (evs1 evs2 : list event) (p i : nat),
  let s1 := exec evs1 init in let s2 := exec evs2 s1 in
  0 < owners s1 i -> (postb (ppc (procs s1 p)) = true -> pfd (procs s1 p) <> i) ->
  ppc (procs s2 p) = Holder -> pfd (procs s2 p) = i -> pres (procs s2 p) = Succeeded true.
Proof. exact C13_unclean_detected. Qed.
Print Assumptions C13_unclean_always_detected.

Theorem C13_death_of_holder_detected : forall (evs1 evs2 : list event) (q p : nat),
  let s0 := exec evs1 init in let s1 := apply_event s0 (Die q) in let s2 := exec evs2 s1 in
  ppc (procs s0 q) = Holder -> ppc (procs s2 p) = Holder -> pfd (procs s2 p) = pfd (procs s0 q) ->
  pres (procs s2 p) = Succeeded true.
Proof. exact C13_dead_holder_detected. Qed.
Print Assumptions C13_death_of_holder_detected.

(* "fresh" is only reported for a file this very attempt created and nobody ever owned *)
Theorem C13_fresh_means_created_here : forall (evs : list event) (p : nat),
  let s := exec evs init in ppc (procs s p) = Holder -> pres (procs s p) = Succeeded false ->
  owners s (pfd (procs s p)) = 1 /\ created_by s (pfd (procs s p)) = p /\ pborn (procs s p) <= pfd (procs s p).
Proof. exact C13_fresh_only_if_created. Qed.
Print Assumptions C13_fresh_means_created_here.

(* a competing opener fails with "locked" exactly because somebody else holds the lock, and its
   failing attempt changes neither the path, nor any lock, nor any mark *)
Theorem C13_loser_fails_and_changes_nothing : forall (evs : list event) (p : nat),
  let s := exec evs init in let s' := run_proc s p in
  ppc (procs s p) = HaveFd -> pres (procs s' p) = FailedLocked ->
  (exists q : nat, q <> p /\ lockedby s (pfd (procs s p)) = Some q) /\
  path s' = path s /\ lockedby s' = lockedby s /\ marked s' = marked s.
Proof. exact C13_failed_means_locked. Qed.
Print Assumptions C13_loser_fails_and_changes_nothing.

Theorem C13_session_undisturbed : forall (evs : list event) (e : event) (q : nat),
  let s := exec evs init in let s' := apply_event s e in
  sessb (ppc (procs s q)) = true -> actor e <> q ->
  path s' = path s /\ marked s' (pfd (procs s q)) = marked s (pfd (procs s q)) /\
  lockedby s' (pfd (procs s q)) = Some q /\ procs s' q = procs s q.
Proof. exact C13_competitor_changes_nothing. Qed.
Print Assumptions C13_session_undisturbed.

(* "clean close => no recovery" is exact when the attempt runs alone ... *)
Theorem C13_flag_exact_without_competitor : forall (evs : list event) (p k : nat),
  let s0 := exec evs init in let s1 := exec (Acquire p :: List.repeat (Step p) k) s0 in
  ppc (procs s0 p) = Idle -> ppc (procs s1 p) = Holder ->
  pres (procs s1 p) = Succeeded match path s0 with Some _ => true | None => false end.
Proof. exact C13_flag_exact_sequential. Qed.
Print Assumptions C13_flag_exact_without_competitor.

(* ... and FALSE in general: KNOWN FINDING K1 (needless recovery when two openers race on a cleanly
   closed directory: the winner locks the file its competitor just created). Harmless for the
   contents (recovery is idempotent, C04), recorded in KNOWN_FINDINGS.json. *)
Theorem C13_needless_recovery_refuted : exists (evs : list event) (p : nat),
  let s := exec evs init in
  List.forallb (fun e : event => negb (is_die e)) evs = true /\
  (forall q : nat, q <> p -> ppc (procs s q) = Idle) /\
  pres (procs s 2) = Succeeded false /\ pres (procs s 0) = FailedLocked /\
  ppc (procs s p) = Holder /\ owners s (pfd (procs s p)) = 1 /\ pres (procs s p) = Succeeded true.
Proof. exact C13_flag_race_refuted. Qed.
Print Assumptions C13_needless_recovery_refuted.

(* sensitivity: the protocol of the pinned tree (stat; open(O_CREATE); flock) admits two holders,
   and the repaired protocol without the mark byte misses an unclean shutdown *)
Theorem C13_pinned_two_holders : exists (evs : list event) (p q : nat),
  let s := Pinned.exec evs Pinned.init in
  p <> q /\ List.forallb (fun e : event => negb (is_die e)) evs = true /\
  Pinned.ppc (Pinned.procs s p) = Pinned.Holder /\ Pinned.ppc (Pinned.procs s q) = Pinned.Holder /\
  Pinned.path s = Some (Pinned.pfd (Pinned.procs s q)) /\
  Pinned.pfd (Pinned.procs s p) <> Pinned.pfd (Pinned.procs s q).
Proof. exact Pinned.two_holders_refuted. Qed.
Print Assumptions C13_pinned_two_holders.
