(* C05 -- Compaction is logically invisible, even with interleaved writers and crashes. *)
From Pogreb Require Import Base Record Flat Spec DB DBInv DBMeta DBLemmas DBProofsOps DBProofsRecovery
  DBProofsCompact DBProofsCrash.

(* the pick: one exclusive section that seals what it picked; contents and disk untouched *)
Theorem C05_pick : forall (P : params) (s : st),
  Inv P s -> MetaOK s -> s_mem s <> None ->
  exists (s' : st) (c : cursor),
    compact_pick flat_ops P s = Some (s', c) /\ Inv P s' /\ CInv s' c /\ s_disk s' = s_disk s /\
    MetaOK s' /\ c_src c = None /\
    (exists es : list fsev, s_trace s' = s_trace s ++ es /\ Forall is_sync es) /\
    (forall m m' : mem, s_mem s = Some m -> s_mem s' = Some m' -> room m -> room m').
Proof. exact compact_pick_ok. Qed.
Print Assumptions C05_pick.

(* every micro-step (start of a segment, one record: dropped or promoted, removal of the source)
   preserves the contents and the invariants, and never fails *)
Theorem C05_every_micro_step : forall (P : params) (s : st) (c : cursor),
  Inv P s -> CInv s c -> (exists m : mem, s_mem s = Some m /\ room m) ->
  match compact_step flat_ops P s c with
  | CDone => c_src c = None /\ c_todo c = nil
  | CMore s' c' => Inv P s' /\ CInv s' c' /\ s_mem s' <> None /\
      (forall k : key, sget (abs (s_disk s')) k = sget (abs (s_disk s)) k)
  | CFail _ => False
  end.
Proof. exact compact_step_ok. Qed.
Print Assumptions C05_every_micro_step.

(* ALL interleavings: any sequence of micro-steps, Puts, Deletes and Syncs in any order (creach)
   leaves exactly the writers' operations applied in the order of their atomic actions, and the
   compaction invariant intact -- writers slip in between any two records *)
Theorem C05_all_interleavings : forall (P : params) (s : st) (c : cursor) (ops : list wop) (s' : st) (c' : cursor),
  params_ok P -> Inv P s -> CInv s c -> creach P s c ops s' c' ->
  Inv P s' /\ CInv s' c' /\ s_mem s' <> None /\
  (forall k : key, sget (abs (s_disk s')) k = sget (fold_left apply_wop ops (abs (s_disk s))) k) /\
  (MetaOK s -> MetaOK s') /\ (files_exact s -> files_exact s') /\ d_bac (s_disk s') = d_bac (s_disk s).
Proof. exact creach_ok. Qed.
Print Assumptions C05_all_interleavings.

(* no resurrection: crash at any point between micro-steps and recover: same contents *)
Theorem C05_no_resurrection : forall (P : params) (seed : N) (s : st) (c : cursor) (ops : list wop) (s' : st) (c' : cursor),
  params_ok P -> Inv P s -> CInv s c -> bac_ok (s_disk s) -> creach P s c ops s' c' ->
  let '(s2, o) := db_open flat_ops P seed {| s_mem := None; s_disk := s_disk s'; s_trace := nil |} in
  o = OOpened true /\ Inv P s2 /\ s_mem s2 <> None /\
  (forall k : key, sget (abs (s_disk s2)) k = sget (abs (s_disk s')) k) /\
  (forall k : key, sget (abs (s_disk s2)) k = sget (fold_left apply_wop ops (abs (s_disk s))) k).
Proof. exact compact_no_resurrection. Qed.
Print Assumptions C05_no_resurrection.

(* ... and crash INSIDE a micro-step (every prefix of its file-system calls, every torn copy) *)
Theorem C05_crash_inside_a_step : forall (P : params) (seed : N) (s : st) (c : cursor) (s' : st) (c' : cursor) (img : disk),
  params_ok P -> Inv P s -> CInv s c -> (exists m, s_mem s = Some m /\ room m) -> bac_ok (s_disk s) ->
  compact_step flat_ops P (clear_trace s) c = CMore s' c' ->
  crash_image (s_disk s) (s_trace s') img ->
  exists s2, db_open flat_ops P seed {| s_mem := None; s_disk := img; s_trace := [] |} = (s2, OOpened true) /\
    Inv P s2 /\ s_mem s2 <> None /\ bac_ok (s_disk s2) /\
    (forall k, sget (abs (s_disk s2)) k = sget (abs (s_disk s)) k) /\
    (forall k, sget (abs (s_disk s2)) k = sget (abs (s_disk s')) k).
Proof. exact C03_compact_step. Qed.
Print Assumptions C05_crash_inside_a_step.

(* the whole Compact on a database nobody else touches *)
Theorem C05_compact : forall (P : params) (s : st),
  Inv P s -> MetaOK s -> s_mem s <> None -> compact_room P s ->
  let '(s', o) := db_compact flat_ops P s in
  (exists a b n : N, o = OCompact a b n) /\ Inv P s' /\ s_mem s' <> None /\
  (forall k : key, sget (abs (s_disk s')) k = sget (abs (s_disk s)) k) /\
  MetaOK s' /\ (files_exact s -> files_exact s') /\ d_bac (s_disk s') = d_bac (s_disk s).
Proof. exact db_compact_ok. Qed.
Print Assumptions C05_compact.

(* sensitivity: pick without sealing (defect D3) resurrects a deleted key; a wrong DeleteRecords counter does too *)
Definition C05_pinned_refuted := pick_without_seal_refuted.
Definition C05_counter_refuted := wrong_counter_refuted.

(* ---- the Go arithmetic this property rests on, AS TRANSLATED FROM THE CURRENT SOURCES by tools/gotrans
   (gen/Funcs.v, operators in GoSem.v), equals the model's, for all values of the Go types ---- *)
From Coq Require Import ZArith NArith Bool.
From Pogreb Require Import Base Record Index GoSem FuncsIndexCheck FuncsLogCheck.
From Pogreb.gen Require Funcs Consts.
Import Funcs.
Open Scope Z_scope.

Theorem C05_go_promote_other :
  forall (h seg off : N) (s : slot),
  go_promote_other (Z.of_N h) (Z.of_N (sl_h s)) (Z.of_N off) (Z.of_N (sl_off s)) (Z.of_N seg) (Z.of_N (sl_seg s)) = negb (rp_hit h seg off s).
Proof. exact promote_other_ok. Qed.
Print Assumptions C05_go_promote_other.

Theorem C05_go_pick_too_small :
  forall size minseg : N, (size < 2 ^ 63)%N -> (minseg < 2 ^ 32)%N ->
  go_pick_too_small (Z.of_N size) (Z.of_N minseg) = (u32 size <? minseg)%N.
Proof. exact pick_too_small_ok. Qed.
Print Assumptions C05_go_pick_too_small.

Theorem C05_go_kvSize :
  forall ks vs : N, (ks < 2 ^ 16)%N -> (vs < 2 ^ 31)%N -> go_kvSize (Z.of_N ks) (Z.of_N vs) = Z.of_N (ks + vs).
Proof. exact kvSize_ok. Qed.
Print Assumptions C05_go_kvSize.

Theorem C05_go_count_rec : forall (isdel : bool) (puts dels : N), (puts < 2 ^ 32)%N -> (dels < 2 ^ 32)%N ->
  go_count_rec (if isdel then 1 else 0) (Z.of_N puts) (Z.of_N dels)
  = (Z.of_N (if isdel then puts else u32 (puts + 1)), Z.of_N (if isdel then u32 (dels + 1) else dels)).
Proof. exact count_rec_ok. Qed.
Print Assumptions C05_go_count_rec.

(* ---- on the PHYSICAL index (PhysConc.v): three layers phys -- PR --> chain -- st_rel --> flat; hypotheses on the
   flat layer only ---- *)
From Pogreb Require Import Base BaseLemmas Record Flat Index Spec DB DBInv DBLemmas DBProofsOps DBMeta
  DBProofsCompact DBSim DBRun DBSimExact Bucket Phys PhysProofs PhysDB DBSimSessions PhysCrash Linz PhysConc.
Import ListNotations.
(* ANY interleaving of compaction picks and micro-steps with Put / Delete / Sync / reads on the physical-index database: the same trace on the chain and flat databases, results of the plain map, invariants, contents = the map after the callers operations (compaction is invisible), files exact *)
Theorem C05_any_interleaving_on_the_physical_index :
  forall P (s1 : (@DB.st phys)) (sp : (@DB.st pindex)) (sf : (@DB.st flat)) c tr s1' c',

  params_ok P -> gst_rel PR s1 sp -> st_rel sp sf -> Inv P sf -> CInv sf c -> MetaOK sf ->
  phys_creach P s1 c tr s1' c' ->
  exists sp' sf' trf,
    gcreach chain_ops P sp c tr sp' c' /\
    gcreach flat_ops P sf c trf sf' c' /\ map fst trf = map fst tr /\
    Forall2 out_equiv (map snd tr) (map snd trf) /\
    gst_rel PR s1' sp' /\ st_rel sp' sf' /\
    Inv P sf' /\ CInv sf' c' /\ MetaOK sf' /\ s_mem sf' <> None /\
    phys_open_ok s1' /\
    Forall2 out_equiv (map snd tr) (seq_run aspec (abs (s_disk sf)) (map fst tr)) /\
    meq (abs (s_disk sf')) (seq_final aspec (abs (s_disk sf)) (map fst tr)) /\
    (files_exact sf -> files_exact sf') /\ d_bac (s_disk sf') = d_bac (s_disk sf).
Proof. exact phys_creach_ok. Qed.
Print Assumptions C05_any_interleaving_on_the_physical_index.

(* the physical invariant (no shared, leaked or dangling overflow bucket; free list exact) holds in every intermediate state *)
Theorem C05_physical_invariant_in_every_intermediate_state :
  forall P (s1 : (@DB.st phys)) (sp : (@DB.st pindex)) (sf : (@DB.st flat)) c tr s1' c',

  params_ok P -> gst_rel PR s1 sp -> st_rel sp sf -> Inv P sf -> CInv sf c -> MetaOK sf ->
  phys_creach P s1 c tr s1' c' ->
  forall tr1 tr2, tr = tr1 ++ tr2 ->
  exists s1m cm, phys_creach P s1 c tr1 s1m cm /\ phys_open_ok s1m.
Proof. exact phys_creach_inv_everywhere. Qed.
Print Assumptions C05_physical_invariant_in_every_intermediate_state.

Definition C05_physical_nonvacuous := PhysConcEx.ex_creach.
