(* C12 -- Backup is a consistent point-in-time copy (flat-index instantiation). *)
From Pogreb Require Import Base Flat Spec DB DBInv DBLemmas DBProofsRecovery DBProofsBackup ShapeCheck.

(* Backup holds the maintenance lock throughout (no compaction runs) and takes the segment list and
   the sizes of the non-full segments under db.mu; files are copied after the lock is released *)
Theorem C12_backup_lock_structure : backup_shape_ok = true.
Proof. exact shape_backup. Qed.
Print Assumptions C12_backup_lock_structure.

(* For EVERY schedule interleaving the backup micro-steps (snapshot = the plan taken in s0; one copy
   step per planned segment, reading the source disk as it is at that moment) with writer operations
   (Put / Delete / Sync, including ones that roll the log over; compaction is excluded by the
   maintenance lock): the backup directory is well formed, carries a lock file, its log is the log
   at the snapshot instant, the recovering Open of it succeeds with exactly the snapshot contents;
   and the source went through the writers' operations only. *)
Theorem C12_every_schedule : forall (P : params) (seed : N) (s0 s : st) (m0 : mem) (copies : list dseg),
  params_ok P -> Inv P s0 -> s_mem s0 = Some m0 ->
  bsteps P (s0, backup_plan m0, nil) (s, nil, copies) ->
  let b := backup_disk copies in
  DiskOK b /\ bac_ok b /\ d_lock b = true /\ olog b = olog (s_disk s0) /\
  (exists s' : st,
     db_open flat_ops P seed {| s_mem := None; s_disk := b; s_trace := nil |} = (s', OOpened true) /\
     Inv P s' /\ s_mem s' <> None /\
     (forall k : key, sget (abs (s_disk s')) k = sget (abs (s_disk s0)) k) /\
     olog (s_disk s') = olog (s_disk s0)) /\
  DBProofsBackup.wsteps P s0 s /\ Inv P s /\ s_mem s <> None.
Proof. exact C12_schedule. Qed.
Print Assumptions C12_every_schedule.

(* the copies may even be taken from disks BETWEEN two file-system calls of a writer (the copy runs
   outside the database lock) *)
Definition C12_event_granular_statement := C12_event_granular.

(* a backup step never changes the source: it is a copy step (source state identical) or a writer step *)
Theorem C12_source_untouched : forall (P : params) (a b : bstate), bstep P a b ->
  fst (fst b) = fst (fst a) /\
  (exists (p : N * N * option N) (c : dseg),
     copy_seg (s_disk (fst (fst a))) p = Some c /\ snd (fst a) = p :: snd (fst b) /\ snd b = snd a ++ c :: nil) \/
  DBProofsBackup.wstep P (fst (fst a)) (fst (fst b)) /\ snd (fst b) = snd (fst a) /\ snd b = snd a.
Proof. exact backup_does_not_touch_source. Qed.
Print Assumptions C12_source_untouched.

(* sensitivity: copying a non-full segment entirely instead of up to the captured size yields a
   directory that matches no instant of the run *)
Definition C12_whole_copy_refuted := BkEx.bk_whole_differs.

(* ---- on the PHYSICAL index (PhysIterBackup.v) ---- *)
From Pogreb Require Import Base BaseLemmas Crc Bytes Record RecordProofs Flat Index Spec DB DBInv
  DBLemmas DBProofsOps DBMeta DBProofsCompact DBProofsRecovery DBProofsCrash DBSim DBRun DBSimExact
  Bucket Phys PhysProofs PhysDB DBSimSessions PhysCrash DBProofsIter DBProofsBackup PhysIterBackup.
Import ListNotations.
(* every interleaving of backup micro-steps with writers on the physical-index database: the backup directory is related to the chain and flat ones, opens (recovering) to exactly the snapshot contents with a well-formed physical index; the source is unaffected *)
Theorem C12_schedule_on_the_physical_index :
  forall P seed (s10 s1 : (@DB.st phys)) (sp0 sp : (@DB.st pindex)) (sf0 sf : (@DB.st flat)) (m10 : (@DB.mem phys)) copies,

  params_ok P -> gst_rel PR s10 sp0 -> st_rel sp0 sf0 -> Inv P sf0 -> s_mem s10 = Some m10 ->
  pbsteps P (s10, sp0, sf0, backup_plan m10, []) (s1, sp, sf, [], copies) ->
  let b1 : (@DB.disk phys) := backup_disk copies in
  let bp : (@DB.disk pindex) := backup_disk copies in
  let bf : (@DB.disk flat) := backup_disk copies in
  (* (i) the backup directory produced from the phys disk: related to the directories the chain and flat
         databases produce; it stores no index; it is recoverable and holds the log of the snapshot *)
  gdisk_rel PR b1 bp /\ disk_rel bp bf /\ phys_disk_ok b1 /\
  DiskOK bf /\ bac_ok bf /\ d_lock bf = true /\ olog bf = olog (s_disk sf0) /\
  (* (ii) opening it with the phys index: recovery; the rebuilt physical index satisfies PhysInv; the
          contents are exactly those of the snapshot instant *)
  (exists s2 sp2 sf2,
     db_open phys_ops P seed (closed1 b1) = (s2, OOpened true) /\
     db_open chain_ops P seed (closedp bp) = (sp2, OOpened true) /\
     db_open flat_ops P seed (closed bf) = (sf2, OOpened true) /\
     gst_rel PR s2 sp2 /\ st_rel sp2 sf2 /\ Inv P sf2 /\ s_mem sf2 <> None /\
     phys_open_ok s2 /\
     answers1 P s2 (abs (s_disk sf0)) /\
     (forall k, sget (abs (s_disk sf2)) k = sget (abs (s_disk sf0)) k) /\
     (forall k, db_get phys_ops P k s2 = db_get phys_ops P k s10) /\
     (forall k, db_has phys_ops P k s2 = db_has phys_ops P k s10) /\
     db_count phys_ops s2 = db_count phys_ops s10) /\
  (* (iii) the source: still a good open database, related to its ghosts, reached by the writers' steps *)
  gst_rel PR s1 sp /\ st_rel sp sf /\ Inv P sf /\ s_mem sf <> None /\ wsteps P sf0 sf /\ phys_open_ok s1.
Proof. exact C12_schedule_phys. Qed.
Print Assumptions C12_schedule_on_the_physical_index.

(* db_backup itself *)
Theorem C12_quiescent_backup_on_the_physical_index :
  forall P seed (s10 : (@DB.st phys)) (sp0 : (@DB.st pindex)) (sf0 : (@DB.st flat)),

  params_ok P -> gst_rel PR s10 sp0 -> st_rel sp0 sf0 -> Inv P sf0 -> s_mem sf0 <> None ->
  exists copies,
    db_backup s10 = Some (backup_disk copies) /\ db_backup sp0 = Some (backup_disk copies) /\
    db_backup sf0 = Some (backup_disk copies) /\
    phys_disk_ok (backup_disk copies) /\
    exists s2 sp2 sf2,
     db_open phys_ops P seed (closed1 (backup_disk copies)) = (s2, OOpened true) /\
     db_open chain_ops P seed (closedp (backup_disk copies)) = (sp2, OOpened true) /\
     db_open flat_ops P seed (closed (backup_disk copies)) = (sf2, OOpened true) /\
     gst_rel PR s2 sp2 /\ st_rel sp2 sf2 /\ Inv P sf2 /\ s_mem sf2 <> None /\
     phys_open_ok s2 /\
     answers1 P s2 (abs (s_disk sf0)) /\
     (forall k, sget (abs (s_disk sf2)) k = sget (abs (s_disk sf0)) k) /\
     (forall k, db_get phys_ops P k s2 = db_get phys_ops P k s10) /\
     (forall k, db_has phys_ops P k s2 = db_has phys_ops P k s10) /\
     db_count phys_ops s2 = db_count phys_ops s10.
Proof. exact backup_quiescent_phys. Qed.
Print Assumptions C12_quiescent_backup_on_the_physical_index.

Definition C12_physical_nonvacuous := PhysIBEx.ex_backup_phys.
