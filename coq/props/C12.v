(* C12 -- Backup is a consistent point-in-time copy (flat-index instantiation). *)
From Pogreb Require Import Base Flat Spec DB DBInv DBLemmas DBProofsRecovery DBProofsBackup ShapeCheck.

(* Backup holds the maintenance lock throughout (no compaction runs) and takes the segment list and
   the sizes of the non-full segments under db.mu; files are copied after the lock is released *)
Theorem C12_backup_lock_structure : backup_shape_ok = true.
Proof. exact shape_backup. Qed.
Print Assumptions C12_backup_lock_structure.

(* For EVERY schedule interleaving the backup micro-steps (snapshot = the plan taken in s0; one copy
   step per planned segment, reading the source disk as it is at that moment) with writer operations
   (Put / Delete / Sync, including ones that roll the log over; compaction is excluded by the
   maintenance lock): the backup directory is well formed, carries a lock file, its log is the log
   at the snapshot instant, the recovering Open of it succeeds with exactly the snapshot contents;
   and the source went through the writers' operations only. *)
Theorem C12_every_schedule : forall (P : params) (seed : N) (s0 s : st) (m0 : mem) (copies : list dseg),
  params_ok P -> Inv P s0 -> s_mem s0 = Some m0 ->
  bsteps P (s0, backup_plan m0, nil) (s, nil, copies) ->
  let b := backup_disk copies in
  DiskOK b /\ bac_ok b /\ d_lock b = true /\ olog b = olog (s_disk s0) /\
  (exists s' : st,
     db_open flat_ops P seed {| s_mem := None; s_disk := b; s_trace := nil |} = (s', OOpened true) /\
     Inv P s' /\ s_mem s' <> None /\
     (forall k : key, sget (abs (s_disk s')) k = sget (abs (s_disk s0)) k) /\
     olog (s_disk s') = olog (s_disk s0)) /\
  DBProofsBackup.wsteps P s0 s /\ Inv P s /\ s_mem s <> None.
Proof. exact C12_schedule. Qed.
Print Assumptions C12_every_schedule.

(* the copies may even be taken from disks BETWEEN two file-system calls of a writer (the copy runs
   outside the database lock) *)
Definition C12_event_granular_statement := C12_event_granular.

(* a backup step never changes the source: it is a copy step (source state identical) or a writer step *)
Theorem C12_source_untouched : forall (P : params) (a b : bstate), bstep P a b ->
  fst (fst b) = fst (fst a) /\
  (exists (p : N * N * option N) (c : dseg),
     copy_seg (s_disk (fst (fst a))) p = Some c /\ snd (fst a) = p :: snd (fst b) /\ snd b = snd a ++ c :: nil) \/
  DBProofsBackup.wstep P (fst (fst a)) (fst (fst b)) /\ snd (fst b) = snd (fst a) /\ snd b = snd a.
Proof. exact backup_does_not_touch_source. Qed.
Print Assumptions C12_source_untouched.

(* sensitivity: copying a non-full segment entirely instead of up to the captured size yields a
   directory that matches no instant of the run *)
Definition C12_whole_copy_refuted := BkEx.bk_whole_differs.
