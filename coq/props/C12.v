(* C12 -- Backup is a consistent point-in-time copy.  The snapshot theorem is in DBProofsBackup.v and
   appended to this file when built; decided here: the lock structure of Backup in the code as it is. *)
From Pogreb Require Import Base ShapeCheck.

(* Backup holds the maintenance lock throughout (no compaction runs) and takes the segment list and
   the sizes of the non-full segments under db.mu; files are copied after the lock is released *)
Theorem C12_backup_lock_structure : backup_shape_ok = true.
Proof. exact shape_backup. Qed.
Print Assumptions C12_backup_lock_structure.
