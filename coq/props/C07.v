(* C07 -- Concurrent operations are linearizable.
   The model runs ATOMIC ACTIONS: one per Put / Delete / Get / GetAppend / Has / Count / Sync call, one
   per compaction micro-step, one per Next call.  A concurrent execution is an interleaving of the
   atomic actions of its threads; each action lies between the call and the return of its
   operation, so the order of the atomic actions respects real time.  The theorems below say that
   this order explains every result: it is a linearization.
   That an operation's critical section IS atomic in the Go code is (1) the obligations over the
   regenerated lock structure (ShapeCheck: every access under db.mu in the required mode, one
   region per operation / per compaction record), (2) Conc.pogreb_race_free, and (3) the trusted
   assumption that sync.RWMutex is a correct readers-writer lock. *)
From Pogreb Require Import Base Record Flat Index Spec DB DBInv DBMeta DBLemmas DBProofsOps DBProofsCompact DBSim
  ShapeCheck Conc.
From Coq Require Import Permutation.

(* writers and compaction micro-steps in ANY interleaving: the contents are the writers' operations in
   the order of their atomic actions; compaction steps are invisible *)
Theorem C07_interleaving_is_sequential : forall (P : params) (s : st) (c : cursor) (ops : list wop) (s' : st) (c' : cursor),
  params_ok P -> Inv P s -> CInv s c -> creach P s c ops s' c' ->
  Inv P s' /\ CInv s' c' /\ s_mem s' <> None /\
  (forall k : key, sget (abs (s_disk s')) k = sget (fold_left apply_wop ops (abs (s_disk s))) k) /\
  (MetaOK s -> MetaOK s') /\ (files_exact s -> files_exact s') /\ d_bac (s_disk s') = d_bac (s_disk s).
Proof. exact creach_ok. Qed.
Print Assumptions C07_interleaving_is_sequential.

(* every read action at any such point returns those contents *)
Theorem C07_reads_see_the_linearization : forall (P : params) (s : st) (k : key) (buf : bytes),
  Inv P s -> s_mem s <> None ->
  db_get flat_ops P k s = OVal (sget (abs (s_disk s)) k) /\
  db_get_append flat_ops P k buf s = OVal (option_map (fun v => buf ++ v) (sget (abs (s_disk s)) k)) /\
  db_has flat_ops P k s = OBool (shas (abs (s_disk s)) k) /\
  db_count flat_ops s = ONum (scount (abs (s_disk s))).
Proof.
  intros P s k buf H1 H2. repeat split;
    [apply get_ok | apply get_append_ok | apply has_ok | apply (count_ok P)]; assumption.
Qed.
Print Assumptions C07_reads_see_the_linearization.

(* the same for every operation sequence on the real bucket-chain index *)
Theorem C07_sequences_on_the_chain_index : forall (P : params) (sp sf : st) (l : list op),
  params_ok P -> st_rel sp sf -> Inv P sf -> Forall op_valid l -> rooms P sf l ->
  Forall2 out_equiv (DBSim.run (step_chain P) sp l) (DBSim.run step_spec (abs (s_disk sf)) l).
Proof. exact C01_chain_refines_map. Qed.
Print Assumptions C07_sequences_on_the_chain_index.

(* the atomicity premise, re-checked against the code on every run *)
Theorem C07_accesses_guarded : all_guarded = true /\ single_region_ops = true /\ compact_order_ok = true.
Proof. split; [exact shape_all_guarded | split; [exact shape_single_region | exact shape_compact_order]]. Qed.
Print Assumptions C07_accesses_guarded.

Theorem C07_no_conflicting_accesses : forall (c0 c : conf) (i j : nat) (ti tj : Shape.tok) (ri rj : list Shape.tok) (hi hj : hset),
  runs_pogreb c0 -> reachable c0 c -> i <> j ->
  nth_error c i = Some (ti :: ri, hi) -> nth_error c j = Some (tj :: rj, hj) ->
  writer_tok ti = true -> (writer_tok tj || reader_tok tj)%bool = true -> False.
Proof. exact pogreb_race_free. Qed.
Print Assumptions C07_no_conflicting_accesses.

(* ---- Linz.v: concurrent HISTORIES (call and return events of any number of threads, each operation
   taking effect at one atomic action between its call and its return; operations may be left
   pending) are LINEARIZABLE in the sense of Herlihy and Wing with respect to the plain map: there is
   a sequence of the completed operations (plus pending ones that took effect) that (a) is a legal
   sequential run of the specification returning exactly the observed results (Items up to order,
   CompactionResult numbers not compared) and (b) respects real time: an operation that returned
   before another one was called comes first. *)
From Pogreb Require Import DBRun Linz.
Theorem C07_histories_are_linearizable :
  forall P (sp : @DB.st pindex) (sf : @DB.st flat) (es : list (event op' out)) c,
  params_ok P -> st_rel sp sf -> Inv P sf -> MetaOK sf ->
  exec (step_chain' P) no_guard no_bg sp es c ->
  Forall op_valid' (map snd (act_ops es)) -> rooms' P sf (map snd (act_ops es)) ->
  linearization step_spec' out_equiv' (abs (s_disk sf)) (hist es) (lin_of (step_chain' P) sp es) /\
  hist_wf (hist es).
Proof.
  intros P sp sf es c HP Hs HI HM He Hv Hr.
  destruct (C07_linearizable P sp sf es c HP Hs HI HM He Hv Hr) as (A & _ & B & _).
  exact (conj A B).
Qed.
Print Assumptions C07_histories_are_linearizable.

(* with compaction running as background micro-steps between the clients' actions *)
Definition C07_linearizable_with_compaction_microsteps := C07_linearizable_microsteps.
(* sensitivity: if Get's index lookup and log read were two instants, a history with a whole
   compaction in between is NOT linearizable *)
Definition C07_split_get_not_linearizable := non_atomic_not_linearizable.

(* ---- on the PHYSICAL index (PhysConc.v): three layers phys -- PR --> chain -- st_rel --> flat; hypotheses on the
   flat layer only ---- *)
From Pogreb Require Import Base BaseLemmas Record Flat Index Spec DB DBInv DBLemmas DBProofsOps DBMeta
  DBProofsCompact DBSim DBRun DBSimExact Bucket Phys PhysProofs PhysDB DBSimSessions PhysCrash Linz PhysConc.
Import ListNotations.
(* every concurrent history (Call / Return events, pending operations allowed, whole Compact as an operation) of the physical-index database is linearizable w.r.t. the plain map *)
Theorem C07_linearizable_on_the_physical_index :
  forall P (s1 : (@DB.st phys)) (sp : (@DB.st pindex)) (sf : (@DB.st flat)) (es : list (event op' out)) c,

  params_ok P -> gst_rel PR s1 sp -> st_rel sp sf -> Inv P sf -> MetaOK sf ->
  exec (step' phys_ops P) no_guard no_bg s1 es c ->
  Forall op_valid' (map snd (act_ops es)) -> rooms' P sf (map snd (act_ops es)) ->
  linearization step_spec' out_equiv' (abs (s_disk sf)) (hist es) (lin_of (step' phys_ops P) s1 es) /\
  linearization (step_chain' P) eq sp (hist es) (lin_of (step' phys_ops P) s1 es) /\
  linearization (step_flat' P) out_equiv sf (hist es) (lin_of (step' phys_ops P) s1 es) /\
  hist_wf (hist es) /\
  let sp' := seq_final (step_chain' P) sp (map snd (act_ops es)) in
  let sf' := seq_final (step_flat' P) sf (map snd (act_ops es)) in
  gst_rel PR (c_s c) sp' /\ st_rel sp' sf' /\ Inv P sf' /\ MetaOK sf' /\
  meq (abs (s_disk sf')) (seq_final step_spec' (abs (s_disk sf)) (map snd (act_ops es))) /\
  (s_mem sf' <> None -> phys_open_ok (c_s c)).
Proof. exact C07_linearizable_phys. Qed.
Print Assumptions C07_linearizable_on_the_physical_index.

(* ... with compaction running as background micro-steps (one critical section each) between the clients actions *)
Theorem C07_linearizable_microsteps_on_the_physical_index :
  forall (P : params) (s1 : (@DB.st phys)) (sp : (@DB.st pindex)) (sf : (@DB.st flat)) (c : cursor)
    (es : list (event op out)) cf,

  params_ok P -> gst_rel PR s1 sp -> st_rel sp sf -> Inv P sf -> CInv sf c -> MetaOK sf ->
  exec (pmstep P) pmguard (pmbg P) (s1, c) es cf ->
  exists lin,
    linearization step_spec out_equiv (abs (s_disk sf)) (hist es) lin /\ map fst lin = act_ops es /\
    hist_wf (hist es) /\
    exists sp' sf',
      gst_rel PR (fst (c_s cf)) sp' /\ st_rel sp' sf' /\
      Inv P sf' /\ CInv sf' (snd (c_s cf)) /\ MetaOK sf' /\ phys_open_ok (fst (c_s cf)) /\
      meq (abs (s_disk sf')) (seq_final step_spec (abs (s_disk sf)) (map snd (act_ops es))).
Proof. exact C07_linearizable_microsteps_phys. Qed.
Print Assumptions C07_linearizable_microsteps_on_the_physical_index.

(* read-your-writes corollary *)
Theorem C07_read_your_writes_on_the_physical_index :
  forall P (s1 : (@DB.st phys)) (sp : (@DB.st pindex)) (sf : (@DB.st flat)) (es : list (event op' out)) c
    ip ig k v rp r,

  params_ok P -> gst_rel PR s1 sp -> st_rel sp sf -> Inv P sf -> MetaOK sf ->
  exec (step' phys_ops P) no_guard no_bg s1 es c ->
  Forall op_valid' (map snd (act_ops es)) -> rooms' P sf (map snd (act_ops es)) ->
  In (HCall ip (OpBase (OpPut k v))) (hist es) ->
  before (hist es) (HRet ip rp) (HCall ig (OpBase (OpGet k))) ->
  In (HRet ig r) (hist es) ->
  (forall j o, In (HCall j o) (hist es) -> j <> ip -> writes_key k o ->
     (exists r', before (hist es) (HRet j r') (HCall ip (OpBase (OpPut k v)))) \/
     before (hist es) (HRet ig r) (HCall j o)) ->
  r = OVal (Some v).
Proof. exact C07_read_your_writes_phys. Qed.
Print Assumptions C07_read_your_writes_on_the_physical_index.

