(* C16 -- Size limits are enforced atomically; every admissible size round-trips. *)
From Pogreb Require Import Base BaseLemmas Crc Bytes Record RecordProofs Flat Spec DB DBInv DBLemmas
  DBProofsOps DBProofsRecovery ConstsCheck.

(* every key of 0..65535 bytes and every value of 0..512 MiB is stored and read back byte-exactly;
   in particular an empty value reads back as Some [] and not as None *)
Theorem C16_admissible_sizes_roundtrip : forall (P : params) (s : st) (k v : list N),
  params_ok P -> Inv P s -> (exists m : mem, s_mem s = Some m /\ room m) ->
  Forall byte k -> Forall byte v -> nlen k <= max_key_len -> nlen v <= max_val_len ->
  let '(s', o) := db_put flat_ops P k v s in
  o = OOk /\ Inv P s' /\ s_mem s' <> None /\
  (forall k' : key, sget (abs (s_disk s')) k' = (if key_eqb k' k then Some v else sget (abs (s_disk s)) k')).
Proof. exact put_ok. Qed.
Print Assumptions C16_admissible_sizes_roundtrip.

Theorem C16_get_returns_contents : forall (P : params) (s : st) (k : key),
  Inv P s -> s_mem s <> None -> db_get flat_ops P k s = OVal (sget (abs (s_disk s)) k).
Proof. exact get_ok. Qed.
Print Assumptions C16_get_returns_contents.

(* a Put beyond a limit returns an error and the WHOLE state (index, log, files, trace) is untouched *)
Theorem C16_oversize_put_rejected_atomically : forall (P : params) (s : st) (k v : list N),
  s_mem s <> None -> max_key_len < nlen k \/ max_val_len < nlen v ->
  exists e : err, db_put flat_ops P k v s = (s, OErr e).
Proof. exact put_rejected. Qed.
Print Assumptions C16_oversize_put_rejected_atomically.

(* Get / Has with ANY key -- also an over-long one whose truncated length equals a stored key's --
   answer from the contents, which never contain an over-long key; Delete needs no length
   hypothesis either, and deleting an absent key writes nothing *)
Theorem C16_has_any_key : forall (P : params) (s : st) (k : key),
  Inv P s -> s_mem s <> None -> db_has flat_ops P k s = OBool (shas (abs (s_disk s)) k).
Proof. exact has_ok. Qed.
Print Assumptions C16_has_any_key.

Theorem C16_delete_any_key : forall (P : params) (s : st) (k : list N),
  params_ok P -> Inv P s -> (exists m : mem, s_mem s = Some m /\ room m) -> Forall byte k ->
  let '(s', o) := db_delete flat_ops P k s in
  o = OOk /\ Inv P s' /\ s_mem s' <> None /\
  (forall k' : key, sget (abs (s_disk s')) k' = (if key_eqb k' k then None else sget (abs (s_disk s)) k')) /\
  (sget (abs (s_disk s)) k = None -> s_disk s' = s_disk s).
Proof. exact delete_ok. Qed.
Print Assumptions C16_delete_any_key.

(* the limits fit the 16-bit and 31-bit length fields of the record format (constants of the code) *)
Theorem C16_limits_fit_fields : Consts.max_key_length < 65536 /\ Consts.max_value_length < Record.delbit /\
  Consts.max_key_length = Record.max_key_len /\ Consts.max_value_length = Record.max_val_len.
Proof. repeat split; reflexivity. Qed.
Print Assumptions C16_limits_fit_fields.

(* across restart and recovery: both preserve the contents pointwise (C02, C03/C08) *)
Theorem C16_across_recovery : forall (P : params) (seed : N) (d : disk),
  params_ok P -> DiskOK d -> bac_ok d -> d_lock d = true ->
  let '(s', o) := db_open flat_ops P seed {| s_mem := None; s_disk := d; s_trace := [] |} in
  o = OOpened true /\ Inv P s' /\ (forall k : key, sget (abs (s_disk s')) k = sget (abs d) k).
Proof.
  intros P seed d H1 H2 H3 H4. pose proof (open_recover_ok P seed d H1 H2 H3 H4) as H.
  destruct (db_open flat_ops P seed {| s_mem := None; s_disk := d; s_trace := [] |}) as [s' o].
  destruct H as (A & B & _ & C & _). auto.
Qed.
Print Assumptions C16_across_recovery.

(* ---- the Go arithmetic this property rests on, AS TRANSLATED FROM THE CURRENT SOURCES by tools/gotrans
   (gen/Funcs.v, operators in GoSem.v), equals the model's, for all values of the Go types ---- *)
From Coq Require Import ZArith NArith Bool.
From Pogreb Require Import Base Record Index GoSem FuncsRecordCheck.
From Pogreb.gen Require Funcs Consts.
Import Funcs.
Open Scope Z_scope.

Theorem C16_go_put_limits :
  forall klen vlen : N,
  go_key_too_large (Z.of_N klen) = (max_key_len <? klen)%N /\ go_value_too_large (Z.of_N vlen) = (max_val_len <? vlen)%N.
Proof. exact put_limits_ok. Qed.
Print Assumptions C16_go_put_limits.

Theorem C16_go_encode_sizes :
  forall r : rec, (nlen (rk r) <= max_key_len)%N -> (nlen (rv r) <= max_val_len)%N ->
  go_encode_sizes (Z.of_N (nlen (rk r))) (Z.of_N (nlen (rv r))) (if rdel r then 1 else 0) = (Z.of_N (rsize r), Z.of_N (vfield r)).
Proof. exact encode_sizes_ok. Qed.
Print Assumptions C16_go_encode_sizes.

