(* driver.ml -- runs the extracted Coq model (model.ml) on a command file, one command per line,
   and prints canonical observables, one per line. The Go harness prints the same lines from the
   implementation; the check diffs the two. No logic of the model lives here: only parsing,
   printing, and the three "arbitrary function" parameters of the theorems instantiated with what
   the implementation uses (MurmurHash3, the float32 fragmentation test, the float64 load factor). *)
open Model

(* ---- N <-> int ---- *)
let rec pos_of_int (i : int) : positive =
  if i = 1 then XH else if i land 1 = 0 then XO (pos_of_int (i lsr 1)) else XI (pos_of_int (i lsr 1))
let n_of_int (i : int) : n = if i = 0 then N0 else Npos (pos_of_int i)
let rec int_of_pos (p : positive) : int =
  match p with XH -> 1 | XO q -> 2 * int_of_pos q | XI q -> 2 * int_of_pos q + 1
let int_of_n (x : n) : int = match x with N0 -> 0 | Npos p -> int_of_pos p

let byte_tab = Array.init 256 n_of_int

(* ---- hex ---- *)
let hexval c = match c with
  | '0'..'9' -> Char.code c - 48 | 'a'..'f' -> Char.code c - 87 | 'A'..'F' -> Char.code c - 55
  | _ -> failwith "bad hex"
let bytes_of_hex (s : string) : n list =
  if s = "-" || s = "nil" then [] else begin
    let l = String.length s / 2 in
    let r = ref [] in
    for i = l - 1 downto 0 do
      r := byte_tab.(hexval s.[2*i] * 16 + hexval s.[2*i+1]) :: !r
    done; !r end
let hex_of_bytes (l : n list) : string =
  if l = [] then "-" else begin
    let b = Buffer.create 64 in
    List.iter (fun x -> Buffer.add_string b (Printf.sprintf "%02x" (int_of_n x))) l;
    Buffer.contents b end
let string_of_bytes (l : n list) : string =
  let b = Buffer.create 64 in
  List.iter (fun x -> Buffer.add_char b (Char.chr (int_of_n x))) l; Buffer.contents b

(* ---- the parameters ---- *)
let murmur (seed : int) (data : string) : int =
  let m32 = 0xFFFFFFFF in
  let mul a b = (a * b) land m32 in
  let rotl x r = ((x lsl r) lor (x lsr (32 - r))) land m32 in
  let c1 = 0xcc9e2d51 and c2 = 0x1b873593 in
  let len = String.length data in
  let h1 = ref (seed land m32) in
  let nblocks = len / 4 in
  for i = 0 to nblocks - 1 do
    let b j = Char.code data.[4*i + j] in
    let k1 = b 0 lor (b 1 lsl 8) lor (b 2 lsl 16) lor (b 3 lsl 24) in
    let k1 = mul k1 c1 in let k1 = rotl k1 15 in let k1 = mul k1 c2 in
    h1 := !h1 lxor k1;
    h1 := rotl !h1 13;
    h1 := (mul !h1 5 + 0xe6546b64) land m32
  done;
  let tail = nblocks * 4 in
  let k1 = ref 0 in
  let rem = len land 3 in
  if rem >= 3 then k1 := !k1 lxor (Char.code data.[tail + 2] lsl 16);
  if rem >= 2 then k1 := !k1 lxor (Char.code data.[tail + 1] lsl 8);
  if rem >= 1 then begin
    k1 := !k1 lxor Char.code data.[tail];
    k1 := mul !k1 c1; k1 := rotl !k1 15; k1 := mul !k1 c2;
    h1 := !h1 lxor !k1
  end;
  h1 := !h1 lxor (len land m32);
  h1 := !h1 lxor (!h1 lsr 16);
  h1 := mul !h1 0x85ebca6b;
  h1 := !h1 lxor (!h1 lsr 13);
  h1 := mul !h1 0xc2b2ae35;
  h1 := !h1 lxor (!h1 lsr 16);
  !h1

let f32 (x : float) : float = Int32.float_of_bits (Int32.bits_of_float x)

let mk_params maxseg minseg fragbits sync : params =
  let minfrag = Int32.float_of_bits (Int32.of_int fragbits) in
  { p_maxseg = n_of_int maxseg; p_minseg = n_of_int minseg;
    (* pickForCompaction: float32(DeletedBytes)/float32(size) < minFragmentation => skip *)
    p_frag = (fun delbytes size ->
      let fr = f32 (f32 (float_of_int (int_of_n delbytes)) /. f32 (float_of_int (int_of_n size))) in
      not (fr < minfrag));
    p_sync = sync;
    (* index.put: float64(numKeys)/float64(numBuckets*slotsPerBucket) > loadFactor *)
    p_grow = (fun nk nb ->
      float_of_int (int_of_n nk) /. float_of_int ((int_of_n nb * 31) land 0xFFFFFFFF) > 0.7);
    p_hash = (fun seed k -> n_of_int (murmur (int_of_n seed) (string_of_bytes k))) }

(* ---- printing ---- *)
let rec name_of (f : fname) : string = match f with
  | FSeg (i, s) -> Printf.sprintf "%05d-%d.psg" (int_of_n i) (int_of_n s)
  | FSegMeta (i, s) -> Printf.sprintf "%05d-%d.psg.pmt" (int_of_n i) (int_of_n s)
  | FMain -> "main.pix" | FOverflow -> "overflow.pix" | FIndexMeta -> "index.pmt"
  | FDbMeta -> "db.pmt" | FLock -> "lock" | FBac g -> name_of g ^ ".bac"

let is_index_file f = match f with FMain | FOverflow -> true | _ -> false
let rec is_seg_file f = match f with FSeg _ -> true | _ -> false

let print_ev (e : 'i fsev) : unit = match e with
  | ECreate f -> Printf.printf "ev create %s\n" (name_of f)
  | EHeader f -> if is_seg_file f then Printf.printf "ev write %s 0 512 hdr\n" (name_of f)
  | EAppend (id, seq, off, r) ->
      let b = encode_rec r in
      Printf.printf "ev write %s %d %d %s\n" (name_of (FSeg (id, seq))) (int_of_n off)
        (List.length b) (hex_of_bytes b)
  | EIndex _ | EGobSeg _ | EGobIndex _ | EGobDb _ -> ()
  | ETrunc (f, n) -> if not (is_index_file f) then Printf.printf "ev trunc %s %d\n" (name_of f) (int_of_n n)
  | ERename (f, g) -> Printf.printf "ev rename %s %s\n" (name_of f) (name_of g)
  | ERemove f -> Printf.printf "ev remove %s\n" (name_of f)
  | ESync f -> Printf.printf "ev sync %s\n" (name_of f)

let err_name = function
  | EKeyTooLarge -> "keytoolarge" | EValueTooLarge -> "valuetoolarge" | EClosed -> "closed"
  | ELocked -> "locked" | EOpenFailed -> "openfailed"

let print_out (cmd : string) (o : out) : unit = match o with
  | OOk -> Printf.printf "%s ok\n" cmd
  | OErr e -> Printf.printf "%s err %s\n" cmd (err_name e)
  | OVal None -> Printf.printf "%s nil\n" cmd
  | OVal (Some v) -> Printf.printf "%s val %s\n" cmd (hex_of_bytes v)
  | OBool b -> Printf.printf "%s %d\n" cmd (if b then 1 else 0)
  | ONum x -> Printf.printf "%s %d\n" cmd (int_of_n x)
  | OItems l ->
      let l = List.map (fun (k, v) -> hex_of_bytes k ^ "=" ^ hex_of_bytes v) l in
      let l = List.sort compare l in
      Printf.printf "%s %d %s\n" cmd (List.length l) (String.concat " " l)
  | OCompact (a, b, c) -> Printf.printf "%s ok %d %d %d\n" cmd (int_of_n a) (int_of_n b) (int_of_n c)
  | OOpened r -> Printf.printf "%s ok recovered=%d\n" cmd (if r then 1 else 0)
  | OBroken w -> Printf.printf "%s MODEL-BROKEN %d\n" cmd (int_of_n w)

let b01 b = if b then 1 else 0

(* ---- state dump ---- *)
let dump_state (ops : 'i idx_ops) (s : 'i st) : unit =
  (match s.s_mem with
   | None -> print_string "mem closed\n"
   | Some m ->
     List.iter (fun g ->
       Printf.printf "seg %d %d size=%d full=%d put=%d delrec=%d delkeys=%d delbytes=%d\n"
         (int_of_n g.g_id) (int_of_n g.g_seq) (int_of_n g.g_size) (b01 g.g_meta.sm_full)
         (int_of_n g.g_meta.sm_put) (int_of_n g.g_meta.sm_delrec) (int_of_n g.g_meta.sm_delkeys)
         (int_of_n g.g_meta.sm_delbytes)) m.m_segs;
     Printf.printf "cur %d %d removed=%d\n" (int_of_n (fst m.m_cur)) (int_of_n (snd m.m_cur)) (b01 m.m_cur_removed);
     Printf.printf "maxseq %d\n" (int_of_n m.m_maxseq);
     Printf.printf "count %d\n" (int_of_n (ops.ix_count m.m_idx));
     let nb = int_of_n (ops.ix_nbuckets m.m_idx) in
     let lines = ref [] in
     for b = 0 to nb - 1 do
       List.iter (fun sl ->
         let k = match read_kv s.s_disk sl with Some (k, _) -> hex_of_bytes k | None -> "?" in
         lines := Printf.sprintf "idx %s %d %d %d %d %d" k (int_of_n sl.sl_seg) (int_of_n sl.sl_off)
                    (int_of_n sl.sl_ks) (int_of_n sl.sl_vs) (int_of_n sl.sl_h) :: !lines)
         (ops.ix_bucket m.m_idx (n_of_int b))
     done;
     List.iter print_endline (List.sort compare !lines));
  let d = s.s_disk in
  List.iter print_endline (List.sort compare (List.map (fun f -> "dir " ^ name_of f) (dir d)));
  List.iter print_endline (List.sort compare (List.map (fun f ->
    Printf.sprintf "file %s %d" (name_of (FSeg (f.f_id, f.f_seq))) (int_of_n (flen f))) d.d_segs))

let dump_recs (s : 'i st) : unit =
  List.iter print_endline (List.sort compare (List.map (fun f ->
    let es = seg_entries f in
    Printf.sprintf "recs %s %s tail=%s" (name_of (FSeg (f.f_id, f.f_seq)))
      (String.concat "," (List.map (fun (o, r) ->
         Printf.sprintf "%d:%s:%s:%s" (int_of_n o) (if r.rdel then "D" else "P")
           (hex_of_bytes r.rk) (hex_of_bytes r.rv)) es))
      (hex_of_bytes f.f_tail)) s.s_disk.d_segs))

(* ---- crash images ----
   [crash i c]: the disk before the last state-changing command, plus the first i events of that
   command, plus -- when c > 0 -- the first c bytes of event i, which must be a segment append. *)
let crash_image (ops : 'i idx_ops) (pre : 'i disk) (tr : 'i fsev list) (i : int) (c : int) : 'i disk =
  let rec go d tr i =
    if i = 0 then
      (if c = 0 then d else
       match tr with
       | EAppend (id, seq, _, r) :: _ ->
           let cut = ntake (n_of_int c) (encode_rec r) in
           { d with d_segs = List.map (fun f ->
               if f.f_id = id && f.f_seq = seq then { f with f_tail = f.f_tail @ cut } else f) d.d_segs }
       | EHeader _ :: _ -> d
       | _ -> failwith "crash: partial event is not a segment write")
    else match tr with
      | [] -> d
      | e :: tr' -> go (apply_ev ops d e) tr' (i - 1)
  in go pre tr i

(* events that the harness sees (kept by the normalisation): used to index crash points *)
let visible (e : 'i fsev) : bool = match e with
  | ECreate _ | EAppend _ | ERename _ | ERemove _ | ESync _ -> true
  | EHeader f -> is_seg_file f
  | ETrunc (f, _) -> not (is_index_file f)
  | EIndex _ | EGobSeg _ | EGobIndex _ | EGobDb _ -> false

(* the shortest prefix of tr containing i visible events, followed by the invisible ones up to the next visible one *)
let raw_index (tr : 'i fsev list) (i : int) : int =
  let rec go tr seen raw =
    match tr with
    | [] -> raw
    | e :: tr' ->
        if visible e then (if seen = i then raw else go tr' (seen + 1) (raw + 1))
        else go tr' seen (raw + 1)
  in go tr 0 0

let split_ws (s : string) : string list = List.filter (fun x -> x <> "") (String.split_on_char ' ' s)

let dump_phys_hook : (Obj.t -> unit) ref = ref (fun _ -> print_string "dumpphys n/a\n")

let run (ops : 'i idx_ops) (dump_index : 'i -> unit) (check_inv : params -> 'i st -> bool option) (ic : in_channel) : unit =
  let params = ref (mk_params 0xFFFFFFFF (32 lsl 20) 0x3f000000 false) in
  let st : 'i st ref = ref { s_mem = None; s_disk = disk0; s_trace = [] } in
  let pre : 'i disk ref = ref disk0 in
  let last_trace : 'i fsev list ref = ref [] in
  let cursor : cursor option ref = ref None in
  let at_remove = ref false in
  let backups : (string, 'i disk) Hashtbl.t = Hashtbl.create 7 in
  let saved : (string, 'i st) Hashtbl.t = Hashtbl.create 7 in
  let iters : (string, dbiter) Hashtbl.t = Hashtbl.create 7 in
  let plans : (string, ((n * n) * n option) list * dseg list) Hashtbl.t = Hashtbl.create 7 in
  let step (f : 'i st -> 'i st * out) (cmd : string) =
    let s0 = clear_trace !st in
    pre := s0.s_disk;
    let (s1, o) = f s0 in
    List.iter print_ev s1.s_trace;
    last_trace := s1.s_trace;
    st := s1;
    print_out cmd o in
  (try while true do
    let line = input_line ic in
    match split_ws line with
    | [] -> ()
    | "#" :: _ -> ()
    | ["reset"] ->
        st := { s_mem = None; s_disk = disk0; s_trace = [] }; pre := disk0; last_trace := [];
        cursor := None; at_remove := false; Hashtbl.reset iters; Hashtbl.reset backups; Hashtbl.reset saved; Hashtbl.reset plans
    | ["params"; a; b; c; d] ->
        params := mk_params (int_of_string a) (int_of_string b) (int_of_string c) (d = "1")
    | ["open"; seed] -> step (db_open ops !params (n_of_int (int_of_string seed))) "open"
    | ["put"; k; v] -> step (db_put ops !params (bytes_of_hex k) (bytes_of_hex v)) "put"
    | ["del"; k] -> step (db_delete ops !params (bytes_of_hex k)) "del"
    | ["get"; k] -> print_out "get" (db_get ops !params (bytes_of_hex k) !st)
    | ["getappend"; k; b] -> print_out "getappend" (db_get_append ops !params (bytes_of_hex k) (bytes_of_hex b) !st)
    | ["has"; k] -> print_out "has" (db_has ops !params (bytes_of_hex k) !st)
    | ["count"] -> print_out "count" (db_count ops !st)
    | ["items"] -> print_out "items" (db_items ops !st)
    | ["sync"] -> step (db_sync ops) "sync"
    | ["compact"] -> step (db_compact ops !params) "compact"
    | ["close"] -> step (db_close ops) "close"
    | ["cpick"] ->
        let s0 = clear_trace !st in
        pre := s0.s_disk;
        (match compact_pick ops !params s0 with
         | None -> print_string "cpick err closed\n"
         | Some (s1, c) ->
             List.iter print_ev s1.s_trace; last_trace := s1.s_trace; st := s1; cursor := Some c;
             at_remove := false;
             print_string "cpick ok\n")
    | ["cstep"] ->
        (* One step = what the implementation does between two of its yield points:
           picked -> [start segment] -> sealed -> [one record] -> record ... -> [end of segment
           detected] -> remove -> [remove segment; start next segment] -> sealed | done *)
        (match !cursor with
         | None -> print_string "cstep nocursor\n"
         | Some c ->
             let s0 = clear_trace !st in
             pre := s0.s_disk;
             let apply s1 c1 = List.iter print_ev s1.s_trace; last_trace := s1.s_trace; st := s1; cursor := Some c1 in
             let finish c = cursor := None;
               Printf.printf "cstep done %d %d %d\n" (int_of_n c.c_segs) (int_of_n c.c_recs) (int_of_n c.c_bytes) in
             (match compact_step ops !params s0 c with
              | CDone -> finish c
              | CFail w -> Printf.printf "cstep MODEL-BROKEN %d\n" (int_of_n w)
              | CMore (s1, c1) ->
                  let is_remove = (c.c_src <> None && c1.c_src = None) in
                  if is_remove && not !at_remove then begin
                    (* the iterator reports the end of the segment: nothing changes *)
                    at_remove := true; last_trace := []; print_string "cstep more\n"
                  end else if is_remove then begin
                    at_remove := false;
                    apply s1 c1;
                    (match c1.c_todo with
                     | [] -> finish c1
                     | _ ->
                       (match compact_step ops !params !st c1 with
                        | CMore (s2, c2) ->
                            st := s2; cursor := Some c2;
                            List.iter print_ev (List.filteri (fun i _ -> i >= List.length s1.s_trace) s2.s_trace);
                            last_trace := s2.s_trace;
                            print_string "cstep more\n"
                        | CDone -> finish c1
                        | CFail w -> Printf.printf "cstep MODEL-BROKEN %d\n" (int_of_n w)))
                  end else begin
                    apply s1 c1; print_string "cstep more\n"
                  end))
    | ["iternew"; name] -> Hashtbl.replace iters name dbiter0; print_string "iternew ok\n"
    | ["iternext"; name] ->
        (match dbiter_step ops !st (Hashtbl.find iters name) with
         | None -> print_string "iternext MODEL-BROKEN\n"
         | Some (it', None) -> Hashtbl.replace iters name it'; print_string "iternext done\n"
         | Some (it', Some (k, v)) -> Hashtbl.replace iters name it';
             Printf.printf "iternext %s %s\n" (hex_of_bytes k) (hex_of_bytes v))
    | ["dump"] -> dump_state ops !st
    | ["dumprecs"] -> dump_recs !st
    | ["segbytes"] ->
        let parts = List.map (fun f ->
          let bs = if f.f_hdr then header_bytes @ List.concat (List.map encode_rec f.f_recs) @ f.f_tail else [] in
          Printf.sprintf "%s:%d:%s" (name_of (FSeg (f.f_id, f.f_seq))) (List.length bs)
            (Digest.to_hex (Digest.string (string_of_bytes bs)))) !st.s_disk.d_segs in
        Printf.printf "segbytes %s\n" (String.concat "," (List.sort compare parts))
    | ["checkinv"] ->
        (match check_inv !params !st with
         | Some true -> print_string "checkinv ok\n"
         | Some false -> print_string "checkinv INVARIANT-FALSE\n"
         | None -> print_string "checkinv ok\n")
    | ["dumpindex"] -> (match !st.s_mem with Some m -> dump_index m.m_idx | None -> print_string "mem closed\n")
    | ["compactbusy"] ->
        (* Compact while a Backup holds the maintenance lock: refused, nothing happens
           (ShapeCheck.backup_shape_ok: the lock is held for the whole Backup) *)
        (match !st.s_mem with None -> print_string "compact err closed\n" | Some _ -> print_string "compact err busy\n")
    | ["dumpphys"] -> (match !st.s_mem with Some m -> !dump_phys_hook (Obj.repr m.m_idx) | None -> print_string "mem closed\n")
    | ["crash"; i; c] ->
        (* process crash inside the last state-changing command *)
        let i = int_of_string i and c = int_of_string c in
        let d = crash_image ops !pre !last_trace (raw_index !last_trace i) c in
        st := { s_mem = None; s_disk = d; s_trace = [] }; cursor := None;
        pre := d; last_trace := [];
        print_string "crash ok\n"
    | ["kill"] ->
        (* process crash between two commands *)
        st := { s_mem = None; s_disk = !st.s_disk; s_trace = [] }; cursor := None;
        pre := !st.s_disk; last_trace := [];
        print_string "kill ok\n"
    | ["save"; name] -> Hashtbl.replace saved name !st; print_string "save ok\n"
    | ["restore"; name] -> st := Hashtbl.find saved name; cursor := None; print_string "restore ok\n"
    | ["backup"; name] ->
        (match db_backup !st with
         | None -> print_string "backup MODEL-BROKEN\n"
         | Some d -> Hashtbl.replace backups name d; print_string "backup ok\n")
    | ["bplan"; name] ->
        (* backup micro-step 1: snapshot of the segment list under the shared lock *)
        (match !st.s_mem with
         | None -> print_string "bplan err closed\n"
         | Some m -> Hashtbl.replace plans name (backup_plan m, []); print_string "bplan ok\n")
    | ["bcopy"; name] ->
        (* backup micro-step 2: copy the next planned segment from the disk as it is now *)
        (match Hashtbl.find plans name with
         | ([], _) -> print_string "bcopy none\n"
         | (p :: rest, done_) ->
           (match copy_seg !st.s_disk p with
            | None -> print_string "bcopy MODEL-BROKEN\n"
            | Some c -> Hashtbl.replace plans name (rest, done_ @ [c]); print_string "bcopy ok\n"))
    | ["bfinish"; name] ->
        let (_, copies) = Hashtbl.find plans name in
        Hashtbl.replace backups name (backup_disk copies); print_string "bfinish ok\n"
    | ["usebackup"; name] ->
        (* continue with the backup directory as the database *)
        st := { s_mem = None; s_disk = Hashtbl.find backups name; s_trace = [] }; cursor := None;
        pre := !st.s_disk; last_trace := [];
        print_string "usebackup ok\n"
    | ["loadseg"; id; seq; hex] ->
        (* replace / create a segment file from raw bytes (must start with a header or be empty) *)
        let id = n_of_int (int_of_string id) and seq = n_of_int (int_of_string seq) in
        let bs = bytes_of_hex hex in
        let d = !st.s_disk in
        let others = List.filter (fun f -> not (f.f_id = id && f.f_seq = seq)) d.d_segs in
        let meta = match List.filter (fun f -> f.f_id = id && f.f_seq = seq) d.d_segs with
          | f :: _ -> f.f_meta | [] -> GAbsent in
        (match parse_file bs with
         | None -> print_string "loadseg badheader\n"
         | Some ((recs, nvalid), _) ->
           let f = { f_id = id; f_seq = seq; f_hdr = (bs <> []); f_recs = recs;
                     f_tail = ndrop (n_of_int (512 + int_of_n nvalid)) bs; f_meta = meta } in
           st := { !st with s_disk = { d with d_segs = others @ [f] } };
           print_string "loadseg ok\n")
    | ["appendraw"; id; seq; hex] ->
        (* append raw bytes to a segment file (damage after a crash) *)
        let id = n_of_int (int_of_string id) and seq = n_of_int (int_of_string seq) in
        let d = !st.s_disk in
        if not (List.exists (fun f -> f.f_id = id && f.f_seq = seq) d.d_segs) then print_string "appendraw nofile\n" else begin
        st := { !st with s_disk = { d with d_segs = List.map (fun f ->
          if f.f_id = id && f.f_seq = seq then { f with f_tail = f.f_tail @ bytes_of_hex hex } else f) d.d_segs } };
        print_string "appendraw ok\n" end
    | ["setlock"; b] ->
        st := { !st with s_disk = { !st.s_disk with d_lock = (b = "1") } }; print_string "setlock ok\n"
    | ["parse"; hex] ->
        let ((recs, nvalid), why) = parse_tail (bytes_of_hex hex) in
        Printf.printf "parse %d %s %s\n" (int_of_n nvalid)
          (match why with SEnd -> "end" | SShort -> "short" | SCorrupt -> "corrupt" | SFuel -> "FUEL")
          (String.concat "," (List.map (fun r -> Printf.sprintf "%s:%s:%s" (if r.rdel then "D" else "P")
             (hex_of_bytes r.rk) (hex_of_bytes r.rv)) recs))
    | ["palloc"; hex] ->
        let bs = bytes_of_hex hex in
        let rec nat_of_int i = if i = 0 then O else S (nat_of_int (i - 1)) in
        Printf.printf "palloc %d\n" (int_of_n (parse_alloc (nat_of_int (List.length bs + 1)) bs))
    | ["encode"; t; k; v] ->
        Printf.printf "encode %s\n" (hex_of_bytes (encode_rec { rk = bytes_of_hex k; rv = bytes_of_hex v; rdel = (t = "D") }))
    | ["crc"; hex] -> Printf.printf "crc %d\n" (int_of_n (crc32 (bytes_of_hex hex)))
    | ["hash"; seed; k] -> Printf.printf "hash %d\n" (murmur (int_of_string seed) (string_of_bytes (bytes_of_hex k)))
    | ["echo"; s] -> Printf.printf "echo %s\n" s
    | _ -> Printf.printf "?? %s\n" line
  done with End_of_file -> ());
  flush stdout
