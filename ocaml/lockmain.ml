(* lockrun: runs schedules of the lock-file protocol model. One schedule per line:
   events "A<p>" (start an acquisition), "S<p>" (next system call of p), "R<p>" (start a release),
   "D<p>" (p dies); after each event it prints the observable state of every process 0..3 and of
   the lock path. *)
open Lockmodel

let rec nat_of_int i = if i = 0 then O else S (nat_of_int (i - 1))
let rec int_of_nat n = match n with O -> 0 | S m -> 1 + int_of_nat m

let pc_name = function
  | Idle -> "idle" | TryCreate -> "lock.create" | WantOpen -> "lock.open" | HaveFd -> "lock.flock"
  | Locked -> "lock.verify" | Verified -> "lock.mark" | Holder -> "holder"
  | Releasing -> "unlock.remove" | Unlinked -> "unlock.close"

let res_name = function
  | NoResult -> "none" | Succeeded true -> "ok-existing" | Succeeded false -> "ok-fresh" | FailedLocked -> "locked"

let show s =
  let ps = List.map (fun p ->
    let ((c, _), r) = obs s (nat_of_int p) in
    Printf.sprintf "%d:%s:%s" p (pc_name c) (res_name r)) [0; 1; 2; 3] in
  let path = match s.path with
    | None -> "nopath"
    | Some i -> if s.marked i then "path-marked" else "path-empty" in
  String.concat " " ps ^ " " ^ path

let () =
  (try while true do
    let line = input_line stdin in
    let s = ref init in
    print_endline ("schedule " ^ line);
    List.iter (fun tok ->
      if tok <> "" then begin
        let p = nat_of_int (int_of_string (String.sub tok 1 (String.length tok - 1))) in
        let e = match tok.[0] with
          | 'A' -> Acquire p | 'S' -> Step p | 'R' -> Release p | 'D' -> Die p
          | _ -> failwith "bad event" in
        s := apply_event !s e;
        print_endline (tok ^ " -> " ^ show !s)
      end) (String.split_on_char ' ' line)
  done with End_of_file -> ())
