let dump_chain (p : Model.pindex) =
  let i = Driver.int_of_n in
  Printf.printf "lvl %d %d %d %d\n" (i p.Model.px_level) (i p.Model.px_split) (List.length p.Model.px_chains) (i p.Model.px_nkeys);
  List.iteri (fun b chain ->
    Printf.printf "chain %d %s\n" b (String.concat " | " (List.map (fun bucket ->
      String.concat "," (List.map (fun (sl : Model.slot) ->
        Printf.sprintf "%d:%d:%d:%d:%d" (i sl.Model.sl_h) (i sl.Model.sl_seg) (i sl.Model.sl_ks) (i sl.Model.sl_vs) (i sl.Model.sl_off)) bucket)) chain)))
    p.Model.px_chains

let () =
  let which = if Array.length Sys.argv > 1 then Sys.argv.(1) else "flat" in
  let ic = if Array.length Sys.argv > 2 then open_in Sys.argv.(2) else stdin in
  match which with
  | "flat" -> Driver.run Model.flat_ops (fun _ -> print_string "flat index\n")
                (fun p s -> Some (Model.inv_b p s)) ic
  | "chain" -> Driver.run Model.chain_ops dump_chain (fun _ _ -> None) ic
  | _ -> prerr_endline "unknown index"; exit 2
