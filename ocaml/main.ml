let dump_chain (p : Model.pindex) =
  let i = Driver.int_of_n in
  Printf.printf "lvl %d %d %d %d\n" (i p.Model.px_level) (i p.Model.px_split) (List.length p.Model.px_chains) (i p.Model.px_nkeys);
  List.iteri (fun b chain ->
    Printf.printf "chain %d %s\n" b (String.concat " | " (List.map (fun bucket ->
      String.concat "," (List.map (fun (sl : Model.slot) ->
        Printf.sprintf "%d:%d:%d:%d:%d" (i sl.Model.sl_h) (i sl.Model.sl_seg) (i sl.Model.sl_ks) (i sl.Model.sl_vs) (i sl.Model.sl_off)) bucket)) chain)))
    p.Model.px_chains

(* the physical index: the same chain dump (read off the bucket files by following the offsets), and
   the physical facts: pointers, free list, byte images of main.pix and overflow.pix *)
let dump_phys_chains (p : Model.phys) =
  let i = Driver.int_of_n in
  Printf.printf "lvl %d %d %d %d\n" (i p.Model.ph_level) (i p.Model.ph_split) (i p.Model.ph_nbuckets) (i p.Model.ph_nkeys);
  for b = 0 to i p.Model.ph_nbuckets - 1 do
    match Model.ph_chain p (Driver.n_of_int b) with
    | None -> Printf.printf "chain %d WALK-FAILED\n" b
    | Some chain ->
      Printf.printf "chain %d %s\n" b (String.concat " | " (List.map (fun bucket ->
        String.concat "," (List.map (fun (sl : Model.slot) ->
          Printf.sprintf "%d:%d:%d:%d:%d" (i sl.Model.sl_h) (i sl.Model.sl_seg) (i sl.Model.sl_ks) (i sl.Model.sl_vs) (i sl.Model.sl_off)) bucket)) chain))
  done

let dump_phys (p : Model.phys) =
  let i = Driver.int_of_n in
  let img bs = let s = Driver.string_of_bytes bs in Printf.sprintf "%d:%s" (String.length s) (Digest.to_hex (Digest.string s)) in
  Printf.printf "phys %d %d %d %d free=%s main=%s over=%s\n"
    (i p.Model.ph_level) (i p.Model.ph_split) (i p.Model.ph_nbuckets) (i p.Model.ph_nkeys)
    (String.concat "," (List.map (fun o -> string_of_int (i o)) p.Model.ph_free))
    (img (Model.ph_main_bytes p)) (img (Model.ph_over_bytes p))

let () =
  let which = if Array.length Sys.argv > 1 then Sys.argv.(1) else "flat" in
  let ic = if Array.length Sys.argv > 2 then open_in Sys.argv.(2) else stdin in
  match which with
  | "flat" -> Driver.run Model.flat_ops (fun _ -> print_string "flat index\n")
                (fun p s -> Some (Model.inv_b p s)) ic
  | "chain" -> Driver.run Model.chain_ops dump_chain (fun _ _ -> None) ic
  | "phys" ->
      Driver.dump_phys_hook := (fun o -> dump_phys (Obj.obj o));
      Driver.run Model.phys_ops dump_phys_chains
        (fun _ s -> match s.Model.s_mem with Some m -> Some (Model.phys_inv_b m.Model.m_idx) | None -> None) ic
  | _ -> prerr_endline "unknown index"; exit 2
