let () =
  let which = if Array.length Sys.argv > 1 then Sys.argv.(1) else "flat" in
  let ic = if Array.length Sys.argv > 2 then open_in Sys.argv.(2) else stdin in
  match which with
  | "flat" -> Driver.run Model.flat_ops (fun _ -> print_string "flat index\n") ic
  | _ -> prerr_endline "unknown index"; exit 2
