package main

import (
	"fmt"
	"go/ast"
	"go/token"
	"sort"
	"strings"
)

// Shape extraction: a syntactic walk, in source order, of the functions that take or rely on the
// database locks. For every function it yields a list of tokens:
//   Acq l m        l.Lock() (m = Ex), l.RLock() (m = Sh)
//   TryAcq l       l.TryLock()
//   Rel l          l.Unlock() / l.RUnlock() (deferred unlocks are emitted at the end, LIFO)
//   Call c held    a call of a method/function of interest, with the locks held at that point
//   Field f held   a read or write of a field of the index / datalog / segment state
//   Yield p        a verif yield point (present in the source; empty function without the tag)
// Branches are walked one after the other, loop bodies once, function literals inline at the point
// where they are called (or deferred). This is deliberately simple: what it cannot see (aliasing of
// mutexes, calls through interfaces) is listed in the trusted base.

type lockState struct {
	held []string // "mu:Ex" ...
}

func (s *lockState) acquire(l, m string) { s.held = append(s.held, l+":"+m) }
func (s *lockState) release(l string) {
	for i := len(s.held) - 1; i >= 0; i-- {
		if strings.HasPrefix(s.held[i], l+":") {
			s.held = append(s.held[:i], s.held[i+1:]...)
			return
		}
	}
}
func (s *lockState) list() string {
	var items []string
	for _, h := range s.held {
		p := strings.SplitN(h, ":", 2)
		items = append(items, fmt.Sprintf("(%s, %s)", lkName(p[0]), p[1]))
	}
	return "[" + strings.Join(items, "; ") + "]"
}

func lkName(l string) string {
	switch l {
	case "mu":
		return "Mu"
	case "maintenanceMu":
		return "MaintMu"
	case "itmu":
		return "ItMu"
	}
	return "Mu"
}

func exprText(e ast.Expr) string {
	switch x := e.(type) {
	case *ast.Ident:
		return x.Name
	case *ast.SelectorExpr:
		return exprText(x.X) + "." + x.Sel.Name
	case *ast.CallExpr:
		return exprText(x.Fun) + "()"
	case *ast.StarExpr:
		return exprText(x.X)
	case *ast.ParenExpr:
		return exprText(x.X)
	case *ast.IndexExpr:
		return exprText(x.X) + "[]"
	case *ast.UnaryExpr:
		return exprText(x.X)
	}
	return "?"
}

// which mutex does this selector chain denote
func mutexOf(sel string) string {
	switch {
	case strings.HasSuffix(sel, ".maintenanceMu"):
		return "maintenanceMu"
	case sel == "it.mu":
		return "itmu"
	case strings.HasSuffix(sel, "db.mu"):
		return "mu"
	}
	return ""
}

var interestingPrefixes = []string{
	"db.index.", "db.datalog.", "it.db.index.", "it.db.datalog.", "idx.", "dl.", "db.put", "db.del", "db.sync",
	"db.writeMeta", "db.readMeta", "db.lock.", "db.pickForCompaction", "db.compact", "db.promoteRecord",
	"db.cancelBgWorker", "db.closeWg.", "it.fetchItems", "it.next", "it.segit.", "sourceSeg.", "seg.", "f.",
	"os.", "syscall.", "cloneBytes", "append", "io.Copy", "touchFile", "srcFS.", "dstFS.", "removeRecoveryBackupFiles",
	"backupNonsegmentFiles", "newSegmentIterator", "newRecoveryIterator", "db.recover", "db.opts.FileSystem.",
	"dl.opts.FileSystem.", "writeGobFile", "readGobFile", "db.hash", "db.Sync", "db.Compact", "db.startBackgroundWorker",
	"openIndex", "openDatalog", "createLockFile", "db.datalog.sealSegment", "dl.sealSegment", "dl.swapSegment", "bit.next",
	"db.index.newBucketIterator", "it.db.index.newBucketIterator", "lock.Unlock", "db.lock.Unlock",
}

var interestingFields = []string{
	"numBuckets", "numKeys", "splitBucketIdx", "level", "freeBucketOffs", "curSeg", "segments", "maxSequenceID",
	"meta", "size", "hashSeed", "queue", "nextBucketIdx",
}

func interestingCall(name string) bool {
	for _, p := range interestingPrefixes {
		if strings.HasPrefix(name, p) {
			return true
		}
	}
	return false
}

type walker struct {
	p       *pkgInfo
	toks    []string
	st      lockState
	defers  []func()
	covered []string // locks whose release is deferred
	leaks   []string // lock sets still held (and not covered by a deferred release) at a return
}

func (w *walker) emit(format string, a ...interface{}) { w.toks = append(w.toks, fmt.Sprintf(format, a...)) }

func (w *walker) call(ce *ast.CallExpr, deferred bool) {
	// arguments first (they are evaluated before the call)
	for _, a := range ce.Args {
		w.expr(a)
	}
	switch fun := ce.Fun.(type) {
	case *ast.FuncLit:
		body := fun.Body
		if deferred {
			ast.Inspect(body, func(n ast.Node) bool {
				if ce, ok := n.(*ast.CallExpr); ok {
					if se, ok := ce.Fun.(*ast.SelectorExpr); ok && (se.Sel.Name == "Unlock" || se.Sel.Name == "RUnlock") {
						if mu := mutexOf(exprText(se.X)); mu != "" {
							w.covered = append(w.covered, mu)
						}
					}
				}
				return true
			})
			w.defers = append(w.defers, func() { w.blockWithDefers(body) })
		} else {
			w.blockWithDefers(body)
		}
		return
	case *ast.SelectorExpr:
		recv := exprText(fun.X)
		if mu := mutexOf(recv); mu != "" {
			act := func() {
				switch fun.Sel.Name {
				case "Lock":
					w.emit("Acq %s Ex", lkName(mu))
					w.st.acquire(mu, "Ex")
				case "RLock":
					w.emit("Acq %s Sh", lkName(mu))
					w.st.acquire(mu, "Sh")
				case "TryLock":
					w.emit("TryAcq %s", lkName(mu))
					w.st.acquire(mu, "Ex")
				case "Unlock", "RUnlock":
					w.emit("Rel %s", lkName(mu))
					w.st.release(mu)
				}
			}
			if deferred {
				if fun.Sel.Name == "Unlock" || fun.Sel.Name == "RUnlock" {
					w.covered = append(w.covered, mu)
				}
				w.defers = append(w.defers, act)
			} else {
				act()
			}
			return
		}
		w.expr(fun.X)
	}
	name := exprText(ce.Fun)
	if name == "verifYield" && len(ce.Args) >= 1 {
		if bl, ok := ce.Args[len(ce.Args)-1].(*ast.BasicLit); ok {
			w.emit("Yield %s", bl.Value)
		}
		return
	}
	if interestingCall(name) {
		act := func() { w.emit("Call \"%s\" %s", name, w.st.list()) }
		if deferred {
			w.defers = append(w.defers, act)
		} else {
			act()
		}
	}
}

func (w *walker) expr(e ast.Expr) {
	switch x := e.(type) {
	case nil:
	case *ast.CallExpr:
		w.call(x, false)
	case *ast.SelectorExpr:
		for _, f := range interestingFields {
			if x.Sel.Name == f {
				w.emit("Field \"%s\" %s", exprText(x), w.st.list())
			}
		}
		w.expr(x.X)
	case *ast.BinaryExpr:
		w.expr(x.X)
		w.expr(x.Y)
	case *ast.UnaryExpr:
		w.expr(x.X)
	case *ast.ParenExpr:
		w.expr(x.X)
	case *ast.StarExpr:
		w.expr(x.X)
	case *ast.IndexExpr:
		w.expr(x.X)
		w.expr(x.Index)
	case *ast.SliceExpr:
		w.expr(x.X)
		w.expr(x.Low)
		w.expr(x.High)
	case *ast.CompositeLit:
		for _, el := range x.Elts {
			w.expr(el)
		}
	case *ast.KeyValueExpr:
		w.expr(x.Value)
	case *ast.FuncLit:
		// a function value that is not called here: walked inline where it is defined (callbacks
		// passed to index.get etc. run inside the callee, i.e. under the same locks)
		w.block(x.Body)
	case *ast.TypeAssertExpr:
		w.expr(x.X)
	}
}

func (w *walker) stmt(s ast.Stmt) {
	switch x := s.(type) {
	case nil:
	case *ast.ExprStmt:
		w.expr(x.X)
	case *ast.AssignStmt:
		for _, r := range x.Rhs {
			w.expr(r)
		}
		for _, l := range x.Lhs {
			w.expr(l)
		}
	case *ast.IncDecStmt:
		w.expr(x.X)
	case *ast.DeferStmt:
		w.call(x.Call, true)
	case *ast.GoStmt:
		w.emit("Go")
		w.call(x.Call, false)
	case *ast.ReturnStmt:
		for _, r := range x.Results {
			w.expr(r)
		}
		w.checkLeak()
	case *ast.IfStmt:
		w.stmt(x.Init)
		w.expr(x.Cond)
		saved := append([]string(nil), w.st.held...)
		// `if !l.TryLock() { ... }`: inside the branch the lock was NOT acquired
		if ue, ok := x.Cond.(*ast.UnaryExpr); ok && ue.Op == token.NOT {
			if ce, ok := ue.X.(*ast.CallExpr); ok {
				if se, ok := ce.Fun.(*ast.SelectorExpr); ok && se.Sel.Name == "TryLock" {
					if mu := mutexOf(exprText(se.X)); mu != "" {
						w.st.release(mu)
					}
				}
			}
		}
		w.block(x.Body)
		if terminates(x.Body) {
			// the branch leaves the function (or the loop iteration): what it released is
			// still held on the path that continues
			w.st.held = saved
		}
		w.stmt(x.Else)
	case *ast.ForStmt:
		w.stmt(x.Init)
		w.expr(x.Cond)
		w.emit("Loop")
		w.block(x.Body)
		w.stmt(x.Post)
		w.emit("EndLoop")
	case *ast.RangeStmt:
		w.expr(x.X)
		w.emit("Loop")
		w.block(x.Body)
		w.emit("EndLoop")
	case *ast.BlockStmt:
		w.block(x)
	case *ast.SwitchStmt:
		w.stmt(x.Init)
		w.expr(x.Tag)
		w.block(x.Body)
	case *ast.CaseClause:
		for _, e := range x.List {
			w.expr(e)
		}
		for _, b := range x.Body {
			w.stmt(b)
		}
	case *ast.SelectStmt:
		w.block(x.Body)
	case *ast.CommClause:
		w.stmt(x.Comm)
		for _, b := range x.Body {
			w.stmt(b)
		}
	case *ast.DeclStmt:
		if gd, ok := x.Decl.(*ast.GenDecl); ok && gd.Tok == token.VAR {
			for _, sp := range gd.Specs {
				if vs, ok := sp.(*ast.ValueSpec); ok {
					for _, v := range vs.Values {
						w.expr(v)
					}
				}
			}
		}
	}
}

// checkLeak records the locks held at a return that no deferred call will release.
func (w *walker) checkLeak() {
	var left []string
	for _, h := range w.st.held {
		l := strings.SplitN(h, ":", 2)[0]
		cov := false
		for _, c := range w.covered {
			if c == l {
				cov = true
			}
		}
		if !cov {
			left = append(left, lkName(l))
		}
	}
	if len(left) > 0 {
		w.leaks = append(w.leaks, "["+strings.Join(left, "; ")+"]")
	}
}

func terminates(b *ast.BlockStmt) bool {
	if b == nil || len(b.List) == 0 {
		return false
	}
	switch b.List[len(b.List)-1].(type) {
	case *ast.ReturnStmt, *ast.BranchStmt:
		return true
	}
	return false
}

func (w *walker) block(b *ast.BlockStmt) {
	if b == nil {
		return
	}
	for _, s := range b.List {
		w.stmt(s)
	}
}

func walkFunc(p *pkgInfo, fd *ast.FuncDecl) []string {
	w := &walker{p: p}
	// a closure body inside a function (compact's per-record section) has its own defers
	w.blockWithDefers(fd.Body)
	return w.toks
}

// blockWithDefers walks a function body: function literals called immediately get their own defer stack.
func (w *walker) blockWithDefers(b *ast.BlockStmt) {
	saved, savedCov := w.defers, w.covered
	w.defers, w.covered = nil, nil
	w.block(b)
	if !terminates(b) {
		w.checkLeak() // falling off the end of the body
	}
	for i := len(w.defers) - 1; i >= 0; i-- {
		w.defers[i]()
	}
	w.defers, w.covered = saved, savedCov
}

func coqIdent(s string) string {
	s = strings.ReplaceAll(s, ".", "_")
	return s
}

func shape(db, fsp *pkgInfo) string {
	var b strings.Builder
	b.WriteString("(* GENERATED by /verif/tools/gotrans from the working tree of /repo. Do not edit. *)\n")
	b.WriteString("From Coq Require Import List String.\nImport ListNotations.\nOpen Scope string_scope.\n\n")
	b.WriteString("Inductive lk := Mu | MaintMu | ItMu.\nInductive mode := Sh | Ex.\n")
	b.WriteString("Inductive tok :=\n| Acq (l : lk) (m : mode)\n| TryAcq (l : lk)\n| Rel (l : lk)\n| Call (c : string) (held : list (lk * mode))\n| Field (f : string) (held : list (lk * mode))\n| Yield (p : string)\n| Go\n| Loop\n| EndLoop.\n\n")
	type target struct {
		p    *pkgInfo
		recv string
		name string
	}
	targets := []target{
		{db, "DB", "Get"}, {db, "DB", "GetAppend"}, {db, "DB", "Has"}, {db, "DB", "Put"}, {db, "DB", "Delete"},
		{db, "DB", "Close"}, {db, "DB", "Sync"}, {db, "DB", "Count"}, {db, "DB", "Items"}, {db, "DB", "FileSize"},
		{db, "DB", "Metrics"}, {db, "DB", "Compact"}, {db, "DB", "compact"}, {db, "DB", "promoteRecord"},
		{db, "DB", "pickForCompaction"}, {db, "DB", "Backup"}, {db, "DB", "recover"}, {db, "DB", "put"},
		{db, "DB", "del"}, {db, "DB", "sync"}, {db, "DB", "startBackgroundWorker"},
		{db, "ItemIterator", "Next"}, {db, "ItemIterator", "fetchItems"},
		{db, "datalog", "close"}, {db, "datalog", "removeSegment"}, {db, "datalog", "writeRecord"},
		{db, "datalog", "sealSegment"}, {db, "datalog", "sync"}, {db, "index", "close"},
		{db, "", "Open"}, {db, "", "writeGobFile"},
		{fsp, "", "createLockFile"}, {fsp, "osLockFile", "Unlock"},
	}
	var names []string
	var leaks []string
	for _, t := range targets {
		fd := t.p.funcDecl(t.recv, t.name)
		if fd == nil {
			fail("function %s.%s not found", t.recv, t.name)
		}
		// closures invoked immediately inside a function body (func() error { ... }()) need their own
		// defer stack: handle by rewriting through blockWithDefers on FuncLit calls.
		w := &walker{p: t.p}
		w.walkBody(fd.Body)
		id := "shape_" + t.name
		if t.recv != "" {
			id = "shape_" + t.recv + "_" + t.name
		}
		names = append(names, id)
		for _, lk := range w.leaks {
			leaks = append(leaks, fmt.Sprintf("(\"%s\", %s)", strings.TrimPrefix(id, "shape_"), lk))
		}
		fmt.Fprintf(&b, "Definition %s : list tok :=\n  [", coqIdent(id))
		for i, tk := range w.toks {
			if i > 0 {
				b.WriteString(";\n   ")
			}
			b.WriteString(tk)
		}
		b.WriteString("].\n\n")
	}
	sort.Strings(names)
	b.WriteString("Definition shape_table : list (string * list tok) :=\n  [")
	for i, n := range names {
		if i > 0 {
			b.WriteString(";\n   ")
		}
		fmt.Fprintf(&b, "(\"%s\", %s)", strings.TrimPrefix(n, "shape_"), coqIdent(n))
	}
	b.WriteString("].\n\n")
	b.WriteString("(* locks still held at a return statement (or at the end of a function body) that no deferred call releases *)\n")
	fmt.Fprintf(&b, "Definition lock_leaks : list (string * list lk) :=\n  [%s].\n", strings.Join(leaks, ";\n   "))
	return b.String()
}

// walkBody walks a function body with a fresh defer stack; immediately-invoked function literals
// are given their own defer stack as well.
func (w *walker) walkBody(b *ast.BlockStmt) {
	w.blockWithDefers(b)
}
