module gotrans

go 1.18
