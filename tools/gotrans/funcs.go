// funcs.go -- translation of integer-valued Go code fragments into Gallina (coq/gen/Funcs.v).
//
// A fragment is a whole function body or a range of statements of one; it is translated statement by
// statement into nested `let`s over Z with Go's fixed-width semantics made explicit: every arithmetic
// node is emitted as `go_<op> <type> a b` where <type> = (U w) | (S w) is the Go type go/types
// computed for that node (so `1 << idx.level` in a uint32 context is a 32-bit shift that wraps, and
// `idx.level + 1` is 8-bit arithmetic).  The meaning of go_<op> is fixed in coq/GoSem.v (hand-written:
// the Go specification for integer operators, conversions and comparisons).  coq/FuncsCheck.v proves,
// for ALL inputs in the ranges of their Go types, that each generated definition equals the
// corresponding definition of the model; a change of the arithmetic in /repo changes Funcs.v and the
// kernel re-checks those equalities.
//
// Supported subset: :=, =, op=, ++, --, var declarations (zero value), if/else whose branches only
// assign, `if c { return e }` followed by more statements, final `return e`; expressions over
// parameters, locals, receiver fields (treated as inputs), constants, conversions between integer
// types, calls of other translated functions, and opaque inputs named in the fragment table (e.g.
// len(key), binary.LittleEndian.Uint16(buf[:2])).  Anything else inside a fragment makes the variable
// it defines "poisoned"; using a poisoned variable is a translation failure (reported, exit 1).
package main

import (
	"fmt"
	"go/ast"
	"go/constant"
	"go/token"
	"go/types"
	"sort"
	"strings"
)

type fragParam struct {
	coq  string // Coq parameter name
	text string // Go expression text (exprText) it stands for
	bool bool
}

type fragSpec struct {
	coq      string
	pkg      string // "db" or "fs"
	recv, fn string
	from, to string // statement markers (substring of the statement's first line); "" = whole body
	params   []fragParam
	outs     []string // Go variable/expr texts returned (tuple, in order); "cond" = condition of the `to` statement (an if); "return" = the function's result
	toCond   bool     // the `to` statement is an if whose condition is an output and whose body is not translated
	skipErr  bool     // `if err := call(); err != nil { return err }` is skipped (the success path is translated)
}

var fragments = []fragSpec{
	{coq: "go_bucketIndex", pkg: "db", recv: "index", fn: "bucketIndex",
		params: []fragParam{{"level", "idx.level", false}, {"split", "idx.splitBucketIdx", false}, {"hash", "hash", false}},
		outs:   []string{"return"}},
	{coq: "go_bucketOffset", pkg: "db", fn: "bucketOffset",
		params: []fragParam{{"idx", "idx", false}}, outs: []string{"return"}},
	{coq: "go_encodedRecordSize", pkg: "db", fn: "encodedRecordSize",
		params: []fragParam{{"kvSize", "kvSize", false}}, outs: []string{"return"}},
	{coq: "go_kvSize", pkg: "db", recv: "slot", fn: "kvSize",
		params: []fragParam{{"keySize", "sl.keySize", false}, {"valueSize", "sl.valueSize", false}}, outs: []string{"return"}},
	{coq: "go_next_sizes", pkg: "db", recv: "segmentIterator", fn: "next",
		from: "keySize :=", to: "if int64(recordSize) >", toCond: true,
		params: []fragParam{{"ks16", "binary.LittleEndian.Uint16(kvSizeBuf[:2])", false},
			{"vs32", "binary.LittleEndian.Uint32(kvSizeBuf[2:])", false},
			{"fsize", "it.f.size", false}, {"offset", "it.offset", false}},
		outs: []string{"rt", "keySize", "valueSize", "recordSize", "cond"}},
	{coq: "go_split_advance", pkg: "db", recv: "index", fn: "split",
		from: "idx.splitBucketIdx++", to: "if idx.splitBucketIdx == 1",
		params: []fragParam{{"level", "idx.level", false}, {"split", "idx.splitBucketIdx", false}},
		outs:   []string{"idx.level", "idx.splitBucketIdx"}},
	{coq: "go_encode_sizes", pkg: "db", fn: "encodeRecord",
		from: "size :=", to: "if rt == recordTypeDelete",
		params: []fragParam{{"klen", "len(key)", false}, {"vlen", "len(value)", false}, {"rt", "rt", false}},
		outs:   []string{"size", "valLen"}},
	{coq: "go_need_swap", pkg: "db", recv: "datalog", fn: "writeRecord",
		from: "if dl.curSeg.meta.Full ||", to: "if dl.curSeg.meta.Full ||", toCond: true,
		params: []fragParam{{"full", "dl.curSeg.meta.Full", true}, {"size", "dl.curSeg.size", false},
			{"dlen", "len(data)", false}, {"maxseg", "dl.opts.maxSegmentSize", false}},
		outs: []string{"cond"}},
	{coq: "go_key_too_large", pkg: "db", recv: "DB", fn: "Put",
		from: "if len(key) > MaxKeyLength", to: "if len(key) > MaxKeyLength", toCond: true,
		params: []fragParam{{"klen", "len(key)", false}}, outs: []string{"cond"}},
	{coq: "go_value_too_large", pkg: "db", recv: "DB", fn: "Put",
		from: "if len(value) > MaxValueLength", to: "if len(value) > MaxValueLength", toCond: true,
		params: []fragParam{{"vlen", "len(value)", false}}, outs: []string{"cond"}},
	{coq: "go_pick_too_small", pkg: "db", recv: "DB", fn: "pickForCompaction",
		from: "if uint32(seg.size) <", to: "if uint32(seg.size) <", toCond: true,
		params: []fragParam{{"size", "seg.size", false}, {"minseg", "db.opts.compactionMinSegmentSize", false}},
		outs:   []string{"cond"}},
	{coq: "go_trackdel", pkg: "db", recv: "datalog", fn: "trackDel",
		from: "meta.DeletedKeys++", to: "meta.DeletedBytes +=",
		params: []fragParam{{"dkeys", "meta.DeletedKeys", false}, {"dbytes", "meta.DeletedBytes", false},
			{"keySize", "sl.keySize", false}, {"valueSize", "sl.valueSize", false}},
		outs: []string{"meta.DeletedKeys", "meta.DeletedBytes"}},
	{coq: "go_count_rec", pkg: "db", recv: "datalog", fn: "writeRecord",
		from: "switch rt", to: "switch rt",
		params: []fragParam{{"rt", "rt", false}, {"puts", "dl.curSeg.meta.PutRecords", false}, {"dels", "dl.curSeg.meta.DeleteRecords", false}},
		outs:   []string{"dl.curSeg.meta.PutRecords", "dl.curSeg.meta.DeleteRecords"}},
	{coq: "go_recover_put", pkg: "db", recv: "DB", fn: "recover",
		from: "meta.PutRecords++", to: "meta.PutRecords++",
		params: []fragParam{{"puts", "meta.PutRecords", false}}, outs: []string{"meta.PutRecords"}},
	{coq: "go_recover_del", pkg: "db", recv: "DB", fn: "recover",
		from: "meta.DeleteRecords++", to: "meta.DeletedBytes +=",
		params: []fragParam{{"dels", "meta.DeleteRecords", false}, {"dbytes", "meta.DeletedBytes", false}, {"rlen", "len(rec.data)", false}},
		outs:   []string{"meta.DeleteRecords", "meta.DeletedBytes"}},
	{coq: "go_del_bytes", pkg: "db", recv: "datalog", fn: "del",
		from: "dl.curSeg.meta.DeletedBytes +=", to: "dl.curSeg.meta.DeletedBytes +=",
		params: []fragParam{{"dbytes", "dl.curSeg.meta.DeletedBytes", false}, {"rlen", "len(rec)", false}},
		outs:   []string{"dl.curSeg.meta.DeletedBytes"}},
	{coq: "go_promote_other", pkg: "db", recv: "DB", fn: "promoteRecord",
		from: "if hash != sl.hash", to: "if hash != sl.hash", toCond: true,
		params: []fragParam{{"hash", "hash", false}, {"slhash", "sl.hash", false}, {"recoff", "rec.offset", false},
			{"sloff", "sl.offset", false}, {"recseg", "rec.segmentID", false}, {"slseg", "sl.segmentID", false}},
		outs: []string{"cond"}},
	{coq: "go_iter_more", pkg: "db", recv: "ItemIterator", fn: "Next",
		from: "for len(it.queue) == 0", to: "for len(it.queue) == 0", toCond: true,
		params: []fragParam{{"qlen", "len(it.queue)", false}, {"next", "it.nextBucketIdx", false}, {"nbuckets", "it.db.index.numBuckets", false}},
		outs:   []string{"cond"}},
	{coq: "go_slice_eof", pkg: "fs", recv: "osMMapFile", fn: "Slice",
		from: "if end > f.size", to: "if end > f.size", toCond: true,
		params: []fragParam{{"fend", "end", false}, {"size", "f.size", false}}, outs: []string{"cond"}},
	{coq: "go_mremap_size", pkg: "fs", recv: "osMMapFile", fn: "mremap", skipErr: true,
		from: "if mmapSize == 0", to: "if mmapSize == 0",
		params: []fragParam{{"mmapSize", "mmapSize", false}, {"size", "f.size", false}},
		outs:   []string{"mmapSize"}},
	{coq: "go_mremap_enough", pkg: "fs", recv: "osMMapFile", fn: "mremap",
		from: "if mmapSize >= f.size", to: "if mmapSize >= f.size", toCond: true,
		params: []fragParam{{"mmapSize", "mmapSize", false}, {"size", "f.size", false}},
		outs:   []string{"cond"}},
	{coq: "go_mmap_write_size", pkg: "fs", recv: "osMMapFile", fn: "WriteAt",
		from: "writeOff :=", to: "if writeOff > f.size",
		params: []fragParam{{"off", "off", false}, {"n", "n", false}, {"size", "f.size", false}},
		outs:   []string{"f.size"}},
}

type ftrans struct {
	p     *pkgInfo
	spec  *fragSpec
	env   map[string]string // Go var/expr text -> current Coq term name
	cnt   map[string]int
	lines []string
	errs  []string
	known map[string]*fragSpec // other translated functions by Go name
}

func (t *ftrans) errf(format string, a ...interface{}) {
	t.errs = append(t.errs, fmt.Sprintf("%s: ", t.spec.coq)+fmt.Sprintf(format, a...))
}

func coqType(ty types.Type) (string, bool) {
	b, ok := ty.Underlying().(*types.Basic)
	if !ok {
		return "", false
	}
	switch b.Kind() {
	case types.Uint8:
		return "(U 8)", true
	case types.Uint16:
		return "(U 16)", true
	case types.Uint32:
		return "(U 32)", true
	case types.Uint64, types.Uint, types.Uintptr:
		return "(U 64)", true
	case types.Int8:
		return "(S 8)", true
	case types.Int16:
		return "(S 16)", true
	case types.Int32:
		return "(S 32)", true
	case types.Int64, types.Int:
		return "(S 64)", true
	case types.UntypedInt, types.UntypedRune:
		return "(S 64)", true
	}
	return "", false
}

func isBool(ty types.Type) bool {
	b, ok := ty.Underlying().(*types.Basic)
	return ok && (b.Kind() == types.Bool || b.Kind() == types.UntypedBool)
}

func (t *ftrans) fresh(key string) string {
	base := coqIdent(strings.NewReplacer(".", "_", "(", "_", ")", "", "[", "_", "]", "", ":", "_", " ", "").Replace(key))
	t.cnt[base]++
	return fmt.Sprintf("%s_%d", base, t.cnt[base])
}

func zlit(v constant.Value) string {
	s := v.ExactString()
	if strings.HasPrefix(s, "-") {
		return "(" + s + ")"
	}
	return s
}

// expr translates e; the result is a Coq term of type Z, or bool for boolean expressions.
func (t *ftrans) expr(e ast.Expr) string {
	txt := fexprText(e)
	if v, ok := t.env[txt]; ok {
		if v == "" {
			t.errf("use of untranslatable value %s", txt)
			return "0"
		}
		return v
	}
	tv := t.p.info.Types[e]
	if tv.Value != nil {
		switch tv.Value.Kind() {
		case constant.Int:
			return zlit(tv.Value)
		case constant.Bool:
			if constant.BoolVal(tv.Value) {
				return "true"
			}
			return "false"
		}
	}
	switch x := e.(type) {
	case *ast.ParenExpr:
		return t.expr(x.X)
	case *ast.Ident:
		if x.Name == "true" || x.Name == "false" {
			return x.Name
		}
		t.errf("unknown identifier %s", x.Name)
		return "0"
	case *ast.UnaryExpr:
		a := t.expr(x.X)
		switch x.Op {
		case token.NOT:
			return "(negb " + a + ")"
		case token.SUB:
			ty, ok := coqType(tv.Type)
			if !ok {
				t.errf("type of %s", txt)
			}
			return fmt.Sprintf("(go_sub %s 0 %s)", ty, a)
		case token.XOR:
			ty, ok := coqType(tv.Type)
			if !ok {
				t.errf("type of %s", txt)
			}
			return fmt.Sprintf("(go_not %s %s)", ty, a)
		case token.ADD:
			return a
		}
		t.errf("unary operator %s", x.Op)
		return "0"
	case *ast.BinaryExpr:
		a, b := t.expr(x.X), t.expr(x.Y)
		switch x.Op {
		case token.LAND:
			return fmt.Sprintf("(andb %s %s)", a, b)
		case token.LOR:
			return fmt.Sprintf("(orb %s %s)", a, b)
		case token.EQL, token.NEQ, token.LSS, token.LEQ, token.GTR, token.GEQ:
			if isBool(t.p.info.Types[x.X].Type) {
				if x.Op == token.EQL {
					return fmt.Sprintf("(Bool.eqb %s %s)", a, b)
				}
				if x.Op == token.NEQ {
					return fmt.Sprintf("(negb (Bool.eqb %s %s))", a, b)
				}
			}
			op := map[token.Token]string{token.EQL: "go_eqb", token.NEQ: "go_neqb", token.LSS: "go_ltb",
				token.LEQ: "go_leb", token.GTR: "go_gtb", token.GEQ: "go_geb"}[x.Op]
			return fmt.Sprintf("(%s %s %s)", op, a, b)
		}
		ty, ok := coqType(tv.Type)
		if !ok {
			t.errf("type of %s is not an integer type", txt)
			return "0"
		}
		op := map[token.Token]string{token.ADD: "go_add", token.SUB: "go_sub", token.MUL: "go_mul",
			token.AND: "go_and", token.OR: "go_or", token.XOR: "go_xor", token.AND_NOT: "go_andnot",
			token.SHL: "go_shl", token.SHR: "go_shr"}[x.Op]
		if op == "" {
			if x.Op == token.QUO || x.Op == token.REM {
				if dv := t.p.info.Types[x.Y]; dv.Value != nil && constant.Sign(dv.Value) != 0 {
					op = map[token.Token]string{token.QUO: "go_quo", token.REM: "go_rem"}[x.Op]
				}
			}
			if op == "" {
				t.errf("operator %s in %s", x.Op, txt)
				return "0"
			}
		}
		return fmt.Sprintf("(%s %s %s %s)", op, ty, a, b)
	case *ast.CallExpr:
		// conversion T(x)
		if ftv, ok := t.p.info.Types[x.Fun]; ok && ftv.IsType() && len(x.Args) == 1 {
			ty, ok := coqType(ftv.Type)
			if !ok {
				t.errf("conversion to %s", fexprText(x.Fun))
				return "0"
			}
			if isBool(t.p.info.Types[x.Args[0]].Type) {
				t.errf("conversion of bool")
			}
			return fmt.Sprintf("(go_conv %s %s)", ty, t.expr(x.Args[0]))
		}
		// call of another translated function
		name := ""
		recvText := ""
		switch f := x.Fun.(type) {
		case *ast.Ident:
			name = f.Name
		case *ast.SelectorExpr:
			name = f.Sel.Name
			recvText = fexprText(f.X)
		}
		if callee, ok := t.known[name]; ok && callee.from == "" {
			fd := t.p.funcDecl(callee.recv, callee.fn)
			var args []string
			for _, cp := range callee.params {
				found := false
				if fd != nil {
					i := 0
					for _, fl := range fd.Type.Params.List {
						for _, pn := range fl.Names {
							if pn.Name == cp.text && i < len(x.Args) {
								args = append(args, t.expr(x.Args[i]))
								found = true
							}
							i++
						}
					}
					if !found && fd.Recv != nil && len(fd.Recv.List) == 1 && len(fd.Recv.List[0].Names) == 1 {
						rn := fd.Recv.List[0].Names[0].Name
						if strings.HasPrefix(cp.text, rn+".") && recvText != "" {
							key := recvText + cp.text[len(rn):]
							if v, ok := t.env[key]; ok && v != "" {
								args = append(args, v)
								found = true
							}
						}
					}
				}
				if !found {
					t.errf("argument %s of %s", cp.text, name)
					args = append(args, "0")
				}
			}
			return fmt.Sprintf("(%s %s)", callee.coq, strings.Join(args, " "))
		}
		t.errf("call %s", txt)
		return "0"
	case *ast.SelectorExpr:
		t.errf("unknown field %s (not declared as an input of the fragment)", txt)
		return "0"
	}
	t.errf("expression %s", txt)
	return "0"
}

func (t *ftrans) assign(key, term string) {
	n := t.fresh(key)
	t.lines = append(t.lines, fmt.Sprintf("let %s := %s in", n, term))
	t.env[key] = n
}

// isErrCheck recognises `if err := call(...); err != nil { return ... }`.
func isErrCheck(x *ast.IfStmt) bool {
	if x.Init == nil || x.Else != nil || len(x.Body.List) != 1 {
		return false
	}
	as, ok := x.Init.(*ast.AssignStmt)
	if !ok || len(as.Lhs) != 1 || len(as.Rhs) != 1 {
		return false
	}
	if id, ok := as.Lhs[0].(*ast.Ident); !ok || id.Name != "err" {
		return false
	}
	if _, ok := as.Rhs[0].(*ast.CallExpr); !ok {
		return false
	}
	be, ok := x.Cond.(*ast.BinaryExpr)
	if !ok || be.Op != token.NEQ || fexprText(be.X) != "err" || fexprText(be.Y) != "nil" {
		return false
	}
	_, ok = x.Body.List[0].(*ast.ReturnStmt)
	return ok
}

// assigned collects the keys a list of (assignment-only) statements writes.
func assignedKeys(stmts []ast.Stmt, acc map[string]bool) bool {
	for _, s := range stmts {
		switch x := s.(type) {
		case *ast.AssignStmt:
			for _, l := range x.Lhs {
				acc[fexprText(l)] = true
			}
		case *ast.IncDecStmt:
			acc[fexprText(x.X)] = true
		case *ast.IfStmt:
			if isErrCheck(x) {
				continue
			}
			if x.Init != nil {
				return false
			}
			if !assignedKeys(x.Body.List, acc) {
				return false
			}
			if x.Else != nil {
				eb, ok := x.Else.(*ast.BlockStmt)
				if !ok || !assignedKeys(eb.List, acc) {
					return false
				}
			}
		case *ast.BlockStmt:
			if !assignedKeys(x.List, acc) {
				return false
			}
		case *ast.EmptyStmt:
		default:
			return false
		}
	}
	return true
}

func (t *ftrans) zeroOf(ty types.Type) string {
	if isBool(ty) {
		return "false"
	}
	if _, ok := coqType(ty); ok {
		return "0"
	}
	return ""
}

// stmts translates a statement list; returns the Coq term of a `return` if the list ends in one.
func (t *ftrans) stmts(list []ast.Stmt) (string, bool) {
	for i, s := range list {
		switch x := s.(type) {
		case *ast.AssignStmt:
			if len(x.Lhs) != len(x.Rhs) {
				for _, l := range x.Lhs {
					t.env[fexprText(l)] = "" // poisoned
				}
				continue
			}
			// evaluate all right-hand sides first (parallel assignment)
			var terms []string
			for k, r := range x.Rhs {
				key := fexprText(x.Lhs[k])
				rt := t.p.info.Types[r].Type
				lt := rt
				if ltv, ok := t.p.info.Types[x.Lhs[k]]; ok && ltv.Type != nil {
					lt = ltv.Type
				} else if id, ok := x.Lhs[k].(*ast.Ident); ok {
					if obj := t.p.info.Defs[id]; obj != nil {
						lt = obj.Type()
					}
				}
				_, isInt := coqType(lt)
				if !isInt && !isBool(lt) {
					terms = append(terms, "")
					continue
				}
				save := len(t.errs)
				var term string
				if x.Tok == token.ASSIGN || x.Tok == token.DEFINE {
					term = t.expr(r)
					// an untyped constant assigned to a typed variable is representable: no wrap needed
				} else {
					ty, _ := coqType(lt)
					cur, ok := t.env[key]
					if !ok || cur == "" {
						t.errf("op-assignment to unknown %s", key)
						cur = "0"
					}
					op := map[token.Token]string{token.ADD_ASSIGN: "go_add", token.SUB_ASSIGN: "go_sub",
						token.MUL_ASSIGN: "go_mul", token.AND_ASSIGN: "go_and", token.OR_ASSIGN: "go_or",
						token.XOR_ASSIGN: "go_xor", token.AND_NOT_ASSIGN: "go_andnot",
						token.SHL_ASSIGN: "go_shl", token.SHR_ASSIGN: "go_shr"}[x.Tok]
					if op == "" {
						t.errf("assignment operator %s", x.Tok)
						op = "go_add"
					}
					term = fmt.Sprintf("(%s %s %s %s)", op, ty, cur, t.expr(r))
				}
				if len(t.errs) > save && (x.Tok == token.DEFINE || x.Tok == token.ASSIGN) {
					// untranslatable right-hand side: poison the variable, forget the errors
					t.errs = t.errs[:save]
					term = ""
				}
				terms = append(terms, term)
			}
			for k := range x.Rhs {
				key := fexprText(x.Lhs[k])
				if terms[k] == "" {
					t.env[key] = ""
				} else {
					t.assign(key, terms[k])
				}
			}
		case *ast.IncDecStmt:
			key := fexprText(x.X)
			ty, ok := coqType(t.p.info.Types[x.X].Type)
			cur, ok2 := t.env[key]
			if !ok || !ok2 || cur == "" {
				t.errf("++/-- on %s", key)
				continue
			}
			op := "go_add"
			if x.Tok == token.DEC {
				op = "go_sub"
			}
			t.assign(key, fmt.Sprintf("(%s %s %s 1)", op, ty, cur))
		case *ast.DeclStmt:
			gd, ok := x.Decl.(*ast.GenDecl)
			if !ok || gd.Tok != token.VAR {
				continue
			}
			for _, sp := range gd.Specs {
				vs := sp.(*ast.ValueSpec)
				for k, n := range vs.Names {
					obj := t.p.info.Defs[n]
					if obj == nil {
						continue
					}
					if len(vs.Values) > k {
						save := len(t.errs)
						term := t.expr(vs.Values[k])
						if len(t.errs) > save {
							t.errs = t.errs[:save]
							t.env[n.Name] = ""
						} else {
							t.assign(n.Name, term)
						}
					} else if z := t.zeroOf(obj.Type()); z != "" {
						t.assign(n.Name, z)
					} else {
						t.env[n.Name] = ""
					}
				}
			}
		case *ast.IfStmt:
			if t.spec.skipErr && isErrCheck(x) {
				continue
			}
			if x.Init != nil {
				// `if err := f(); err != nil { return err }`: outside the subset; its effects are unknown
				t.errf("if statement with an initialiser: %s", fexprText(x.Cond))
				continue
			}
			// (a) `if c { return e }` followed by the rest
			if len(x.Body.List) == 1 && x.Else == nil {
				if rs, ok := x.Body.List[0].(*ast.ReturnStmt); ok && len(rs.Results) == 1 {
					c := t.expr(x.Cond)
					e1 := t.expr(rs.Results[0])
					sub := &ftrans{p: t.p, spec: t.spec, env: copyEnv(t.env), cnt: t.cnt, known: t.known}
					rest, ok := sub.stmts(list[i+1:])
					t.errs = append(t.errs, sub.errs...)
					if !ok {
						t.errf("statements after `if ... { return }` do not end in a return")
						return "0", true
					}
					body := strings.Join(append(sub.lines, rest), "\n    ")
					return fmt.Sprintf("if %s then %s else\n    %s", c, e1, body), true
				}
			}
			// (b) branches that only assign
			keys := map[string]bool{}
			var elseList []ast.Stmt
			if x.Else != nil {
				if eb, ok := x.Else.(*ast.BlockStmt); ok {
					elseList = eb.List
				} else {
					elseList = []ast.Stmt{x.Else}
				}
			}
			if !assignedKeys(x.Body.List, keys) || !assignedKeys(elseList, keys) {
				t.errf("if statement outside the subset: %s", fexprText(x.Cond))
				continue
			}
			var ks []string
			for k := range keys {
				if _, ok := t.env[k]; ok { // variables local to a branch do not survive it
					ks = append(ks, k)
				}
			}
			sort.Strings(ks)
			c := t.expr(x.Cond)
			branch := func(l []ast.Stmt) string {
				sub := &ftrans{p: t.p, spec: t.spec, env: copyEnv(t.env), cnt: t.cnt, known: t.known}
				sub.stmts(l)
				t.errs = append(t.errs, sub.errs...)
				var vals []string
				for _, k := range ks {
					v := sub.env[k]
					if v == "" {
						v = "0"
						t.errf("branch leaves %s untranslatable", k)
					}
					vals = append(vals, v)
				}
				tuple := strings.Join(vals, ", ")
				if len(vals) != 1 {
					tuple = "(" + tuple + ")"
				}
				return strings.Join(append(sub.lines, tuple), " ")
			}
			thenT, elseT := branch(x.Body.List), branch(elseList)
			if len(ks) == 0 {
				continue
			}
			var names []string
			for _, k := range ks {
				names = append(names, t.fresh(k))
			}
			pat := names[0]
			if len(names) > 1 {
				pat = "'(" + strings.Join(names, ", ") + ")"
			}
			t.lines = append(t.lines, fmt.Sprintf("let %s := if %s then %s else %s in", pat, c, thenT, elseT))
			for k, key := range ks {
				t.env[key] = names[k]
			}
		case *ast.SwitchStmt:
			// `switch tag { case c1: assigns; case c2: assigns; default: assigns }` without fallthrough
			if x.Init != nil || x.Tag == nil {
				t.errf("switch statement outside the subset")
				continue
			}
			var chain ast.Stmt
			var last *ast.IfStmt
			var deflt *ast.BlockStmt
			okSw := true
			for _, cc := range x.Body.List {
				cl := cc.(*ast.CaseClause)
				for _, st := range cl.Body {
					if br, ok := st.(*ast.BranchStmt); ok && br.Tok == token.FALLTHROUGH {
						okSw = false
					}
				}
				body := &ast.BlockStmt{List: cl.Body}
				if cl.List == nil {
					deflt = body
					continue
				}
				var cond ast.Expr
				for _, ce := range cl.List {
					eq := &ast.BinaryExpr{X: x.Tag, Op: token.EQL, Y: ce}
					t.p.info.Types[eq] = types.TypeAndValue{Type: types.Typ[types.Bool]}
					if cond == nil {
						cond = eq
					} else {
						or := &ast.BinaryExpr{X: cond, Op: token.LOR, Y: eq}
						t.p.info.Types[or] = types.TypeAndValue{Type: types.Typ[types.Bool]}
						cond = or
					}
				}
				is := &ast.IfStmt{Cond: cond, Body: body}
				if last == nil {
					chain = is
				} else {
					last.Else = is
				}
				last = is
			}
			if !okSw || chain == nil {
				t.errf("switch statement outside the subset")
				continue
			}
			if deflt != nil {
				last.Else = deflt
			}
			if r, ok := t.stmts([]ast.Stmt{chain}); ok {
				return r, true
			}
		case *ast.ReturnStmt:
			if len(x.Results) != 1 {
				t.errf("return with %d results", len(x.Results))
				return "0", true
			}
			return t.expr(x.Results[0]), true
		case *ast.ExprStmt, *ast.EmptyStmt:
			// a call for its effect (binary.LittleEndian.PutUint16(...), copy(...)): no tracked variable changes
		case *ast.BlockStmt:
			if r, ok := t.stmts(x.List); ok {
				return r, true
			}
		default:
			t.errf("statement %T outside the subset", s)
		}
	}
	return "", false
}

func copyEnv(m map[string]string) map[string]string {
	n := make(map[string]string, len(m))
	for k, v := range m {
		n[k] = v
	}
	return n
}

func stmtHead(p *pkgInfo, s ast.Stmt) string {
	switch x := s.(type) {
	case *ast.IfStmt:
		if x.Init != nil {
			return "if <init>; " + fexprText(x.Cond)
		}
		return "if " + fexprText(x.Cond)
	case *ast.AssignStmt:
		var l, r []string
		for _, e := range x.Lhs {
			l = append(l, fexprText(e))
		}
		for _, e := range x.Rhs {
			r = append(r, fexprText(e))
		}
		return strings.Join(l, ", ") + " " + x.Tok.String() + " " + strings.Join(r, ", ")
	case *ast.IncDecStmt:
		return fexprText(x.X) + x.Tok.String()
	case *ast.SwitchStmt:
		if x.Tag != nil {
			return "switch " + fexprText(x.Tag)
		}
	case *ast.ForStmt:
		if x.Init == nil && x.Post == nil && x.Cond != nil {
			return "for " + fexprText(x.Cond)
		}
	}
	return ""
}

func translateFragment(p *pkgInfo, spec *fragSpec, known map[string]*fragSpec) (string, []string) {
	fd := p.funcDecl(spec.recv, spec.fn)
	t := &ftrans{p: p, spec: spec, env: map[string]string{}, cnt: map[string]int{}, known: known}
	if fd == nil || fd.Body == nil {
		return "", []string{fmt.Sprintf("%s: function %s.%s not found", spec.coq, spec.recv, spec.fn)}
	}
	var ps []string
	for _, fp := range spec.params {
		t.env[fp.text] = fp.coq
		ty := "Z"
		if fp.bool {
			ty = "bool"
		}
		ps = append(ps, fmt.Sprintf("(%s : %s)", fp.coq, ty))
	}
	list := fd.Body.List
	var condStmt *ast.IfStmt
	if spec.from != "" {
		lo, hi := -1, -1
		// the statement list (function body or a nested block / loop body) that contains the marker
		ast.Inspect(fd.Body, func(n ast.Node) bool {
			bs, ok := n.(*ast.BlockStmt)
			if !ok || lo >= 0 {
				return lo < 0
			}
			for i, s := range bs.List {
				h := stmtHead(p, s)
				if lo < 0 && strings.HasPrefix(h, spec.from) {
					lo = i
				}
				if lo >= 0 && hi < 0 && strings.HasPrefix(h, spec.to) {
					hi = i
				}
			}
			if lo >= 0 {
				list = bs.List
			}
			return lo < 0
		})
		if lo < 0 || hi < 0 {
			return "", []string{fmt.Sprintf("%s: statements %q .. %q not found in %s", spec.coq, spec.from, spec.to, spec.fn)}
		}
		if spec.toCond {
			is, ok := list[hi].(*ast.IfStmt)
			if fs, isFor := list[hi].(*ast.ForStmt); isFor && fs.Init == nil && fs.Post == nil && fs.Cond != nil {
				// `for cond { ... }`: the loop condition is the output
				is, ok = &ast.IfStmt{Cond: fs.Cond, Body: fs.Body}, true
			}
			if !ok || is.Init != nil {
				return "", []string{fmt.Sprintf("%s: %q is not a plain if statement", spec.coq, spec.to)}
			}
			condStmt = is
			list = list[lo:hi]
		} else {
			list = list[lo : hi+1]
		}
	}
	ret, hasRet := t.stmts(list)
	var outs []string
	outBool := false
	for _, o := range spec.outs {
		switch o {
		case "return":
			if !hasRet {
				t.errf("no return value")
				ret = "0"
			}
			outs = append(outs, ret)
			if fd.Type.Results != nil && len(fd.Type.Results.List) == 1 {
				outBool = isBool(p.info.Types[fd.Type.Results.List[0].Type].Type)
			}
		case "cond":
			outs = append(outs, t.expr(condStmt.Cond))
			outBool = true
		default:
			v, ok := t.env[o]
			if !ok || v == "" {
				t.errf("output %s is not available", o)
				v = "0"
			}
			outs = append(outs, v)
			outBool = false
		}
	}
	res := strings.Join(outs, ", ")
	rty := "Z"
	if len(outs) > 1 {
		res = "(" + res + ")"
		var tys []string
		for _, o := range spec.outs {
			if o == "cond" {
				tys = append(tys, "bool")
			} else {
				tys = append(tys, "Z")
			}
		}
		rty = strings.Join(tys, " * ")
	} else if outBool {
		rty = "bool"
	}
	var b strings.Builder
	where := spec.fn
	if spec.recv != "" {
		where = spec.recv + "." + spec.fn
	}
	if spec.from != "" {
		fmt.Fprintf(&b, "(* %s: statements `%s` .. `%s` *)\n", where, spec.from, spec.to)
	} else {
		fmt.Fprintf(&b, "(* %s *)\n", where)
	}
	fmt.Fprintf(&b, "Definition %s %s : %s :=\n", spec.coq, strings.Join(ps, " "), rty)
	for _, l := range t.lines {
		fmt.Fprintf(&b, "  %s\n", l)
	}
	fmt.Fprintf(&b, "  %s.\n\n", res)
	return b.String(), t.errs
}

func funcsFile(db, fsp *pkgInfo) (string, []string) {
	var b strings.Builder
	b.WriteString("(* GENERATED by /verif/tools/gotrans (funcs.go) from the working tree of /repo. Do not edit.\n")
	b.WriteString("   Integer code fragments of the Go sources as Gallina terms over Z; the operators are defined in GoSem.v. *)\n")
	b.WriteString("From Coq Require Import ZArith Bool.\nFrom Pogreb Require Import GoSem.\nOpen Scope Z_scope.\n\n")
	known := map[string]*fragSpec{}
	for i := range fragments {
		if fragments[i].from == "" {
			known[fragments[i].fn] = &fragments[i]
		}
	}
	var errs []string
	for i := range fragments {
		p := db
		if fragments[i].pkg == "fs" {
			p = fsp
		}
		s, e := translateFragment(p, &fragments[i], known)
		errs = append(errs, e...)
		if len(e) > 0 {
			// keep the file well-formed: an untranslatable fragment becomes a definition that cannot
			// satisfy its obligation, with the reason in a comment
			var ps []string
			for _, fp := range fragments[i].params {
				ty := "Z"
				if fp.bool {
					ty = "bool"
				}
				ps = append(ps, fmt.Sprintf("(%s : %s)", fp.coq, ty))
			}
			fmt.Fprintf(&b, "(* UNTRANSLATABLE %s: %s *)\nDefinition %s_untranslatable %s : unit := tt.\n\n",
				fragments[i].coq, strings.ReplaceAll(strings.Join(e, "; "), "*)", "* )"), fragments[i].coq, strings.Join(ps, " "))
			continue
		}
		b.WriteString(s)
	}
	return b.String(), errs
}

func fexprText(e ast.Expr) string { return types.ExprString(e) }
