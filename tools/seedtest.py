#!/usr/bin/env python3
"""seedtest.py verify <name> <dir-with-patch.diff-and-mut_demo_test.go> <property> [demo-package-dir]
       -> confirms in a scratch worktree: clean tree + demo passes; patched tree passes the existing suite
          and fails the demo; then stores the change under /verif/seeded/<name>/.
   seedtest.py run <name> [check ids...]
       -> applies /verif/seeded/<name>/patch.diff to /repo, runs ./check for the given properties
          (default: the property it breaks), restores /repo, records the verdicts in meta.json.
"""
import json, os, shutil, subprocess, sys, time

ENV = dict(os.environ, GOFLAGS="-mod=mod", GOPROXY="off", GOSUMDB="off", GOTOOLCHAIN="local")
SEEDED = "/verif/seeded"


def sh(cmd, cwd=None, timeout=1800):
    p = subprocess.run(cmd, shell=True, cwd=cwd, env=ENV, stdout=subprocess.PIPE, stderr=subprocess.STDOUT, text=True, timeout=timeout)
    return p.returncode, p.stdout


def verify(name, src, prop, pkgdir="."):
    wt = "/tmp/seedwt-%s" % name
    sh("git -C /repo worktree remove --force %s" % wt)
    rc, out = sh("git -C /repo worktree add -f %s HEAD" % wt)
    assert rc == 0, out
    res = {}
    try:
        demo = os.path.join(src, "mut_demo_test.go")
        shutil.copy(demo, os.path.join(wt, pkgdir, "mut_demo_test.go"))
        rc, out = sh("go test -mod=mod -vet=off -count=1 -run 'MutDemo|Mut' ./%s" % pkgdir, cwd=wt)
        res["clean_demo_passes"] = rc == 0
        res["clean_demo_tail"] = out[-600:]
        os.remove(os.path.join(wt, pkgdir, "mut_demo_test.go"))
        rc, out = sh("git apply %s" % os.path.join(src, "patch.diff"), cwd=wt)
        assert rc == 0, out
        rc, out = sh("go build ./... && go build -tags verif ./... && go test -mod=mod -vet=off -count=1 ./...", cwd=wt)
        res["patched_suite_passes"] = rc == 0
        res["patched_suite_tail"] = out[-600:]
        shutil.copy(demo, os.path.join(wt, pkgdir, "mut_demo_test.go"))
        rc, out = sh("go test -mod=mod -vet=off -count=1 -run 'MutDemo|Mut' ./%s" % pkgdir, cwd=wt)
        res["patched_demo_fails"] = rc != 0
        res["patched_demo_tail"] = out[-1200:]
    finally:
        sh("git -C /repo worktree remove --force %s" % wt)
    ok = res["clean_demo_passes"] and res["patched_suite_passes"] and res["patched_demo_fails"]
    print(json.dumps({k: v for k, v in res.items() if not k.endswith("_tail")}))
    if not ok:
        print(json.dumps(res, indent=1))
        return 1
    d = os.path.join(SEEDED, name)
    os.makedirs(d, exist_ok=True)
    shutil.copy(os.path.join(src, "patch.diff"), os.path.join(d, "patch.diff"))
    shutil.copy(demo, os.path.join(d, "mut_demo_test.go"))
    readme = os.path.join(src, "README.md")
    if os.path.exists(readme):
        shutil.copy(readme, os.path.join(d, "README.md"))
    head = sh("git -C /repo rev-parse --short HEAD")[1].strip()
    meta = {"name": name, "breaks_property": prop, "demo_package_dir": pkgdir, "verified_against_repo_commit": head,
            "confirmed": {"clean_tree_demo_passes": True, "patched_tree_existing_suite_passes": True, "patched_tree_demo_fails": True},
            "what_was_run": ["go test -run MutDemo on a scratch worktree of /repo HEAD (clean)", "git apply patch.diff; go build ./...; go build -tags verif ./...; go test ./... (existing suite)", "go test -run MutDemo (patched)"],
            "demo_failure_excerpt": res["patched_demo_tail"][-500:], "needs_to_manifest": "", "checks": {}}
    mp = os.path.join(d, "meta.json")
    if os.path.exists(mp):
        old = json.load(open(mp))
        meta["needs_to_manifest"] = old.get("needs_to_manifest", "")
        meta["checks"] = old.get("checks", {})
    json.dump(meta, open(mp, "w"), indent=1)
    return 0


def run(name, ids):
    d = os.path.join(SEEDED, name)
    meta = json.load(open(os.path.join(d, "meta.json")))
    if not ids:
        ids = [meta["breaks_property"]]
    rc, out = sh("git -C /repo status --porcelain")
    assert out.strip() == "", "repo not clean: " + out
    rc, out = sh("git -C /repo apply %s" % os.path.join(d, "patch.diff"))
    assert rc == 0, out
    saved = {}
    for pid in ids:
        ep = "/verif/evidence/%s.json" % pid
        if os.path.exists(ep):
            saved[pid] = open(ep).read()
    try:
        for pid in ids:
            t0 = time.time()
            rc, out = sh("./check %s --tier quick" % pid, cwd="/verif", timeout=3600)
            line = [l for l in out.splitlines() if l.startswith("VIOLATION") or l.startswith("OK ")]
            verdict = line[-1] if line else out[-300:]
            meta["checks"][pid] = {"exit": rc, "verdict": verdict, "wall_s": round(time.time() - t0, 1)}
            print(name, pid, rc, verdict)
            # keep the replay file of a detection next to the seeded change
            if rc == 1 and "replay=" in verdict:
                rp = verdict.split("replay=")[1].split()[0]
                if os.path.exists(rp):
                    shutil.copy(rp, os.path.join(d, "replay-%s.json" % pid))
    finally:
        # the evidence files describe runs on the unchanged tree: put them back
        for pid, txt in saved.items():
            open("/verif/evidence/%s.json" % pid, "w").write(txt)
        sh("git -C /repo checkout -- .")
        sh("git -C /repo clean -fd -e '*.go' >/dev/null 2>&1")
    json.dump(meta, open(os.path.join(d, "meta.json"), "w"), indent=1)
    return 0


if __name__ == "__main__":
    if sys.argv[1] == "verify":
        sys.exit(verify(sys.argv[2], sys.argv[3], sys.argv[4], sys.argv[5] if len(sys.argv) > 5 else "."))
    else:
        sys.exit(run(sys.argv[2], sys.argv[3:]))
